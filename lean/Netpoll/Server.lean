/-
Interleaving model of netpoll's server side (property C13): `server` (netpoll_server.go) and
`eventLoop` (netpoll_unix.go).

Actors, one model step per atomic step of the code:
* the acceptor: the listener's poller calling `server.OnRead` (accept results are scripted by the
  environment: a connection on descriptor `fd` | EAGAIN | EMFILE/ENFILE | any other error, whose text
  may contain "closed"), and any number of EMFILE back-off goroutines (`bk`, counter abstraction:
  they have no local data besides the retry delay);
* `onAccept`, per accepted connection (`Conn.apc`): init (OnPrepare may close; else the connection is
  registered in ITS poller: from here on other pollers deliver to it) | IsActive check | add the
  untrack callback | map.Store | onConnect();
* the connection itself, abstracted to the summary C05 provides: it is closed at most once
  (`closing`, by its peer / its handler / Shutdown), its teardown runs exactly once, after the close
  and while no handler runs (`processing` lock), and consists of: load the callback list (a snapshot:
  does it contain the untrack callback?) | untrack = map.Delete(fd) | finalizer: close the descriptor.
  Callbacks are LIFO, the finalizer was registered first (in init), so untrack precedes the close.
  Handlers are busy/idle at the environment's will (`isIdle` = `processing` free and buffers empty);
* `eventLoop.Serve` with the one-slot quit channel (`stop`), `eventLoop.Shutdown` / `server.Close`
  (detach listener | close listener | per round: [read accepts in flight] | Range over the map:
  idle ⇒ Close [| still tracked ⇒ count], else count | return nil iff 0 | wait: tick or ctx done).

Descriptor numbers: `accept` returns a number that is not open in the process (kernel); the map is
keyed by that number, `Delete(fd)` removes whatever is stored under it.

`Cfg` selects the code variant: all flags true = the code with fixes/c13-track.patch (what
Tie/Server.lean ties to /repo); flags false = the code before the fix (kept for the witnesses).
-/
namespace Netpoll.Server

structure Cfg where
  /-- onAccept registers the untrack callback BEFORE the IsActive check, and the Store is ordered
      against the callback by a mutex + `untracked` flag (no Store after untrack ran) -/
  fixTrack : Bool
  /-- `server.accept` counts accepts in flight; `Close` starts every round from that count -/
  fixInflight : Bool
  /-- `Close` counts a connection that is still tracked after its close attempt -/
  fixRecheck : Bool
deriving DecidableEq, Repr

def Cfg.fixed : Cfg := ⟨true, true, true⟩
def Cfg.old : Cfg := ⟨false, false, false⟩

/-- program counter of `onAccept` for one connection. Order of the middle steps:
    old code  `inited -check→ p1 -addCb→ p2 -store→ stored`,
    fixed     `inited -addCb→ p1 -check→ p2 -store→ stored`;  `ret` = returned at the check. -/
inductive APc | accepted | inited | p1 | p2 | stored | done | ret
deriving DecidableEq, Repr

/-- teardown progress: callbacks not started | list loaded (`u` = snapshot contains untrack) |
    untrack step passed | descriptor closed -/
inductive Td | none | loaded (u : Bool) | fin | closed
deriving DecidableEq, Repr

structure Conn where
  fd : Nat
  apc : APc := .accepted
  /-- registered in its poller (epoll ADD in init): peer events are delivered from here on -/
  reg : Bool := false
  /-- `IsActive() = false` -/
  closing : Bool := false
  /-- a handler task holds `processing`, or unprocessed input/output is buffered -/
  busy : Bool := false
  /-- untrack callback registered -/
  cbReg : Bool := false
  /-- untrack callback has run (the `untracked` flag of the fixed code) -/
  unt : Bool := false
  td : Td := .none
  fdOpen : Bool := true
  /-- ghost: Shutdown saw this connection idle / issued Close on it -/
  sawIdle : Bool := false
  shutClosed : Bool := false
deriving DecidableEq, Repr

def Conn.inflight (c : Conn) : Bool := c.apc != .done && c.apc != .ret
/-- `connection.isIdle`: processing unlocked (no handler, no teardown – teardown never releases it) and buffers empty -/
def Conn.isIdle (c : Conn) : Bool := !c.busy && c.td == .none

/-- `Shutdown` / `server.Close` program counter -/
inductive Sh
  | idle | took | quitSent | detached | round | ranging
  | closing (i : Nat) | tearing (i : Nat) | after (i : Nat)
  | waiting | retNil | retCtx
deriving DecidableEq, Repr

inductive Sv | notStarted | waiting | returned (err : Bool)
deriving DecidableEq, Repr

structure S where
  conns : List Conn := []
  /-- `server.connections`: descriptor number ↦ connection (index in `conns`) -/
  map : Nat → Option Nat := fun _ => none
  /-- `server.Run` registered the listener -/
  ran : Bool := false
  /-- listener descriptors open -/
  lnOpen : Bool := true
  /-- listener registered in its poller (epoll) -/
  reg : Bool := false
  /-- `server.operator.detached` (never reset) -/
  detached : Nat := 0
  /-- EMFILE back-off goroutines in their retry loop -/
  bk : Nat := 0
  /-- ghost: back-off goroutines ever spawned; the OnRead "closed" path ran -/
  spawned : Nat := 0
  errQuit : Bool := false
  sv : Sv := .notStarted
  /-- `eventLoop.stop`, capacity 1: `some err?` -/
  stop : Option Bool := none
  sh : Sh := .idle
  /-- keys the current Range still has to visit -/
  todo : List Nat := []
  /-- `activeConn` of the current round -/
  active : Nat := 0
  ctxDone : Bool := false
  /-- ghost: Shutdown calls that found `evl.svr == nil` and returned nil at once -/
  again : Nat := 0

inductive AccRes | conn (fd : Nat) | eagain | emfile | err (closedWord : Bool)
deriving DecidableEq, Repr

inductive Act
  | serveRun (ok : Bool) | serveRecv
  | pAccept (r : AccRes) | bAccept (r : AccRes)
  | aInit (i : Nat) (prepClose : Bool) | aCheck (i : Nat) | aAddCb (i : Nat) | aStore (i : Nat) | aOnConnect (i : Nat)
  | cClose (i : Nat) | cBusy (i : Nat) | cIdle (i : Nat)
  | tStart (i : Nat) | tUntrack (i : Nat) | tFdClose (i : Nat)
  | shCall | shAgain | shQuit | shDetach | shLnClose | shRound | shObserve | shSkip | shClose | shTornDown
  | shRecheck | shEnd | shTick | shCtx
  | ctxExpire
deriving DecidableEq, Repr

def S.setConn (s : S) (i : Nat) (c : Conn) : S := { s with conns := s.conns.set i c }

/-- no open descriptor of the process has this number (the kernel never hands out an open number) -/
def S.fdFree (s : S) (fd : Nat) : Bool := s.conns.all fun c => !c.fdOpen || c.fd != fd

/-- connection `i` is the value stored under its descriptor number -/
def S.tracked (s : S) (i : Nat) : Bool :=
  match s.conns[i]? with
  | some c => s.map c.fd == some i
  | none => false

def mapSet (m : Nat → Option Nat) (f i : Nat) : Nat → Option Nat := fun k => if k = f then some i else m k
def mapDel (m : Nat → Option Nat) (f : Nat) : Nat → Option Nat := fun k => if k = f then none else m k

/-- `evl.quit(err)`: non-blocking send on the one-slot channel -/
def S.quit (s : S) (err : Bool) : S :=
  { s with stop := match s.stop with | some e => some e | none => some err }

/-- `s.operator.Control(PollDetach)`: only the first call ever reaches epoll (`detached` is never reset).
    Returns the error flag of the call. -/
def S.detachLn (s : S) : S × Bool :=
  if s.detached ≥ 1 then ({ s with detached := s.detached + 1 }, false)
  else if s.reg then ({ s with detached := 1, reg := false }, false)
  else ({ s with detached := 1 }, true)

def S.push (s : S) (fd : Nat) : S := { s with conns := s.conns ++ [{ fd := fd }] }

/-- `ln.Accept()` + what the caller does with the result; `backoff` = called from a retry goroutine -/
def stepAccept (s : S) (backoff : Bool) : AccRes → Option S
  | .conn fd => if s.lnOpen && s.fdFree fd then some (s.push fd) else none
  | .eagain =>
    if !s.lnOpen then none
    else if backoff then some { s with reg := true, bk := s.bk - 1 }   -- Control(PollReadable); goroutine ends
    else some s
  | .emfile =>
    if !s.lnOpen then none
    else if backoff then some s                                          -- next retry
    else
      let (s1, e) := s.detachLn
      if e then some s1 else some { s1 with bk := s1.bk + 1, spawned := s1.spawned + 1 }
  | .err cw =>
    if backoff then some s                                               -- retries for ever
    else if cw then some { (s.detachLn.1.quit true) with errQuit := true }
    else some s

def stepConn (cfg : Cfg) (s : S) (i : Nat) (c : Conn) : Act → Option S
  | .aInit _ prep =>
    if c.apc = .accepted then
      some (s.setConn i (if prep then { c with apc := .inited, closing := true, td := .closed, fdOpen := false }
                         else { c with apc := .inited, reg := true }))
    else none
  | .aCheck _ =>
    if c.apc = (if cfg.fixTrack then APc.p1 else APc.inited) then
      some (s.setConn i { c with apc := if c.closing then .ret else (if cfg.fixTrack then .p2 else .p1) })
    else none
  | .aAddCb _ =>
    if c.apc = (if cfg.fixTrack then APc.inited else APc.p1) then
      some (s.setConn i { c with cbReg := true, apc := if cfg.fixTrack then .p1 else .p2 })
    else none
  | .aStore _ =>
    if c.apc = .p2 then
      if cfg.fixTrack && c.unt then some (s.setConn i { c with apc := .stored })
      else some { (s.setConn i { c with apc := .stored }) with map := mapSet s.map c.fd i }
    else none
  | .aOnConnect _ => if c.apc = .stored then some (s.setConn i { c with apc := .done }) else none
  | .cClose _ => if c.reg && !c.closing then some (s.setConn i { c with closing := true }) else none
  | .cBusy _ =>
    if c.reg && !c.closing && c.td = .none && !c.busy then some (s.setConn i { c with busy := true }) else none
  | .cIdle _ => if c.busy then some (s.setConn i { c with busy := false }) else none
  | .tStart _ =>
    if c.reg && c.closing && !c.busy && c.td = .none then some (s.setConn i { c with td := .loaded c.cbReg }) else none
  | .tUntrack _ =>
    match c.td with
    | .loaded true => some { (s.setConn i { c with td := .fin, unt := true }) with map := mapDel s.map c.fd }
    | .loaded false => some (s.setConn i { c with td := .fin })
    | _ => none
  | .tFdClose _ => if c.td = .fin then some (s.setConn i { c with td := .closed, fdOpen := false }) else none
  | _ => none

def stepSh (cfg : Cfg) (s : S) : Act → Option S
  | .shCall => if s.sh = .idle && s.sv != .notStarted then some { s with sh := .took } else none
  | .shAgain => if s.sh != .idle || s.sv = .notStarted then some { s with again := s.again + 1 } else none
  | .shQuit => if s.sh = .took then some { (s.quit false) with sh := .quitSent } else none
  | .shDetach => if s.sh = .quitSent then some { s.detachLn.1 with sh := .detached } else none
  | .shLnClose => if s.sh = .detached then some { s with lnOpen := false, reg := false, sh := .round } else none
  | .shRound =>
    if s.sh = .round then
      some { s with todo := (List.range s.conns.length).filter s.tracked,
                    active := if cfg.fixInflight then s.conns.countP Conn.inflight else 0,
                    sh := .ranging }
    else none
  | .shObserve =>
    -- the Range callback runs on connection `i`. The entry may have been deleted since the Range
    -- fetched it ("Range may reflect any mapping for that key from any point during the call"):
    -- such a connection is torn down, hence not idle, and is counted.
    if s.sh = .ranging then
      match s.todo with
      | [] => none
      | i :: rest =>
        match s.conns[i]? with
        | none => none
        | some c =>
          if c.isIdle then some { (s.setConn i { c with sawIdle := true }) with todo := rest, sh := .closing i }
          else some { s with todo := rest, active := s.active + 1 }
    else none
  | .shSkip =>
    -- the Range does not visit a key that was deleted meanwhile
    if s.sh = .ranging then
      match s.todo with
      | [] => none
      | i :: rest => if !s.tracked i then some { s with todo := rest } else none
    else none
  | .shClose =>
    match s.sh with
    | .closing i =>
      match s.conns[i]? with
      | none => none
      | some c =>
        if !c.busy && c.td = .none then
          some { (s.setConn i { c with closing := true, shutClosed := true, td := .loaded c.cbReg }) with sh := .tearing i }
        else some { (s.setConn i { c with closing := true, shutClosed := true }) with sh := .after i }
    | _ => none
  | .shTornDown =>
    match s.sh with
    | .tearing i =>
      match s.conns[i]? with
      | some c => if c.td = .closed then some { s with sh := .after i } else none
      | none => none
    | _ => none
  | .shRecheck =>
    match s.sh with
    | .after i =>
      if cfg.fixRecheck && s.tracked i then some { s with active := s.active + 1, sh := .ranging }
      else some { s with sh := .ranging }
    | _ => none
  | .shEnd =>
    if s.sh = .ranging && s.todo = [] then
      (if s.active = 0 then some { s with sh := .retNil } else some { s with sh := .waiting })
    else none
  | .shTick => if s.sh = .waiting then some { s with sh := .round } else none
  | .shCtx => if s.sh = .waiting && s.ctxDone then some { s with sh := .retCtx } else none
  | _ => none

def Act.conn? : Act → Option Nat
  | .aInit i _ | .aCheck i | .aAddCb i | .aStore i | .aOnConnect i
  | .cClose i | .cBusy i | .cIdle i | .tStart i | .tUntrack i | .tFdClose i => some i
  | _ => none

def step (cfg : Cfg) (s : S) (a : Act) : Option S :=
  match a with
  | .serveRun ok =>
    if s.sv = .notStarted then
      (if ok then some { s with ran := true, reg := true, sv := .waiting }
       else some { (s.quit true) with sv := .waiting })
    else none
  | .serveRecv =>
    if s.sv = .waiting then
      match s.stop with
      | some e => some { s with sv := .returned e, stop := none }
      | none => none
    else none
  | .pAccept r => if s.ran then stepAccept s false r else none
  | .bAccept r => if s.bk > 0 then stepAccept s true r else none
  | .ctxExpire => some { s with ctxDone := true }
  | a =>
    match a.conn? with
    | some i =>
      match s.conns[i]? with
      | some c => stepConn cfg s i c a
      | none => none
    | none => stepSh cfg s a

def run (cfg : Cfg) : S → List Act → Option S
  | s, [] => some s
  | s, a :: as => match step cfg s a with
    | some s' => run cfg s' as
    | none => none

def init : S := {}

def Reachable (cfg : Cfg) (s : S) : Prop := ∃ as, run cfg init as = some s

/-! ### What the program counters assume about the source (tied to /repo by Tie/Server.lean) -/

/-- the statements of `server.onAccept` at nesting depth 0 that are model steps, in source order,
    as `tools/extract` labels them -/
def onAcceptSteps (cfg : Cfg) : List String :=
  if cfg.fixTrack then
    ["0 expr:init", "0 expr:AddCloseCallback", "0 if:IsActive", "0 expr:mu.Lock", "0 if:", "0 expr:mu.Unlock", "0 expr:onConnect"]
  else
    ["0 expr:init", "0 if:IsActive", "0 expr:AddCloseCallback", "0 expr:s.connections.Store", "0 expr:onConnect"]

/-- the untrack callback's statements -/
def untrackSteps (cfg : Cfg) : List String :=
  if cfg.fixTrack then ["1 expr:mu.Lock", "1 assign:", "1 expr:s.connections.Delete", "1 expr:mu.Unlock", "1 return:"]
  else ["1 expr:s.connections.Delete", "1 return:"]

/-- statement labels that carry no model step (pure local computation) -/
def neutral (l : String) : Bool :=
  l = "0 assign:new" || l = "0 assign:Fd" || l = "0 decl:" || l = "0 assign:" || l = "1 return:" ||
  l = "1 expr:s.connections.Store"

/-- the whole statement list of `server.onAccept` the model assumes -/
def expectedOnAccept (cfg : Cfg) : List String :=
  if cfg.fixTrack then
    ["0 assign:new", "0 expr:init", "0 assign:Fd", "0 decl:", "0 assign:", "0 expr:AddCloseCallback"] ++ untrackSteps cfg ++
    ["0 if:IsActive", "1 return:", "0 expr:mu.Lock", "0 if:", "1 expr:s.connections.Store", "0 expr:mu.Unlock", "0 expr:onConnect"]
  else
    ["0 assign:new", "0 expr:init", "0 if:IsActive", "1 return:", "0 assign:Fd", "0 expr:AddCloseCallback"] ++ untrackSteps cfg ++
    ["0 expr:s.connections.Store", "0 expr:onConnect"]

def expectedClose (cfg : Cfg) : List String :=
  ["0 expr:Control(PollDetach)", "0 expr:Close", "0 for:",
   (if cfg.fixInflight then "1 assign:atomic.LoadInt32(s.accepting)" else "1 assign:"),
   "1 expr:s.connections.Range", "2 assign:", "2 if:isIdle", "3 expr:Close"] ++
  (if cfg.fixRecheck then ["3 if:s.connections.Load", "4 incdec:"] else []) ++
  ["2 else:", "3 incdec:", "2 return:", "1 if:", "2 return:",
   "1 assign:", "1 if:", "2 assign:", "1 else:", "1 if:", "2 assign:",
   "1 select:", "1 case:recv,Done", "2 return:Err", "1 case:recv,time.After", "2 continue:"]

def expectedAccept (cfg : Cfg) : List String :=
  if cfg.fixInflight then
    ["0 expr:atomic.AddInt32(s.accepting,1)", "0 defer:atomic.AddInt32(s.accepting,-1)", "0 assign:Accept", "0 if:",
     "1 expr:onAccept", "0 return:"]
  else []

def expectedOnRead (cfg : Cfg) : List String :=
  (if cfg.fixInflight then ["0 assign:accept", "0 if:", "1 return:"]
   else ["0 assign:Accept", "0 if:", "1 if:", "2 expr:onAccept", "1 return:"]) ++
  ["0 expr:Printf", "0 if:isOutOfFdErr", "1 assign:Control(PollDetach)", "1 if:", "2 expr:Printf", "2 return:",
   "1 go:func", "2 assign:", "2 assign:", "2 for:", "3 if:", "4 expr:time.Sleep",
   (if cfg.fixInflight then "3 assign:accept" else "3 assign:Accept"),
   "3 if:", "4 if:", "5 expr:Control(PollReadable)", "5 return:"] ++
  (if cfg.fixInflight then [] else ["4 expr:onAccept"]) ++
  ["4 expr:Println,RemoteAddr", "4 assign:", "4 continue:", "3 if:len", "4 incdec:", "3 expr:Printf,Error",
   "0 if:strings.Contains,Error", "1 expr:Control(PollDetach)", "1 expr:onQuit", "1 return:", "0 return:"]

def expectedRun : List String :=
  ["0 assign:Fd", "0 assign:Pick", "0 assign:Control(PollReadable)", "0 if:", "1 expr:onQuit", "0 return:"]

def expectedServe : List String :=
  ["0 assign:ConvertListener", "0 if:", "1 return:", "0 expr:evl.Lock", "0 assign:newServer", "0 expr:Run",
   "0 expr:evl.Unlock", "0 assign:waitQuit", "0 expr:runtime.SetFinalizer", "0 return:"]

def expectedShutdown : List String :=
  ["0 expr:evl.Lock", "0 assign:", "0 assign:", "0 expr:evl.Unlock", "0 if:", "1 return:", "0 expr:quit", "0 return:Close"]

def expectedQuit : List String := ["0 select:", "0 case:", "0 default:"]
def expectedWaitQuit : List String := ["0 return:recv"]

end Netpoll.Server
