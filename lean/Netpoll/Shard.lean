import Netpoll.Gen.Consts
/-!
# Interleaving model of `mux.ShardQueue` (/repo/mux/shard_queue.go) – property C17

One model step per atomic step of the Go code: every `sync/atomic` call, every shard-lock /
list-lock acquire and release, and every plain access that another goroutine can observe
(the append under the shard lock, the ring write with its `q.w` advance, the ring read with its
`q.r` advance, the swap, the read of `q.swap` for `deal`, the `IsActive` test, the deal of one getter, the flush).

Actors
* **adders** – any number; each `Add` call is one element of `S.adders` (a list of adder-local
  states: program counter, the getter ids it carries, its shard, its `trigger` flag).  New calls
  start at any time (`Act.add n`), so no theorem bounds their number.
* **the worker** – the closure passed to `runner.RunTask` in `foreach`.  The part of it that
  touches `q.r / q.swap` (from the first load of `trigger` to `runNum := 0`) is the *loop
  worker*; the model has one slot for it (`wpc … work`) and counts in the ghost `clash` how often
  a second one was started while the slot was taken (theorem `single_worker`: never).  After
  `runNum := 0` a worker has no local data left; such *tail* workers are counted per program
  counter (`tRecheck tRun tSpawn`) – any number of them.
* **closers** – any number of `Close` calls.  Those that have not yet tried their CAS are counted
  (`cCas`); the one call whose CAS `active → closing` succeeds (at most one: `state` never returns
  to `active`, theorem `C17_single_closer`) has a slot with its program counter `cwin` and the
  locals of `drained` (`cShard`, `cN`).
* environment: a new `Add`, a new `Close`, the connection dying.

Ghost state (never read by a non-ghost assignment): getter ids and where each one is
(`ignored skipped invoked notApp wbuf sent`), the FIFO `ring` of unconsumed trigger entries
with the absolute counters `nRead nWritten`, `clash`, `closeOk closeErr`, and `closeSnap`: the getters
that were queued (in a shard, in `swap`, in the worker's hands) when the winning `Close` did its CAS.

Mirrored as they are: `Add()` with no getters returns before it touches the queue (`len(gts) == 0` is
local, so such a call has no atomic step); the shard index is `uint32(idx) % uint32(size)` (`idx` is an
`int32` that wraps; `S.idx` counts the increments); the worker does not touch `state`; `Close` polls
`drained()` – every shard empty, read under its lock, then `trigger = 0` – and stores `closed` itself.
-/
namespace Netpoll.Shard

def active : Nat := Netpoll.Gen.c_mux_active
def closing : Nat := Netpoll.Gen.c_mux_closing
def closed : Nat := Netpoll.Gen.c_mux_closed

/-- value of an `int32` that has been incremented `n` times from 0 -/
def wrap32 (n : Nat) : Int :=
  if n % 4294967296 < 2147483648 then ((n % 4294967296 : Nat) : Int) else ((n % 4294967296 : Nat) : Int) - 4294967296

/-- `int32(uint32(v) % uint32(size))` for the `int32` `v` that has been incremented `idx` times from 0 -/
def shardOf (idx size : Nat) : Nat := (idx % 4294967296) % size

/-- program counter of an `Add` call: the atomic step it performs next -/
inductive APc
  | state    -- atomic.LoadInt32(&q.state)
  | idx      -- atomic.AddInt32(&q.idx, 1) % q.size
  | lock     -- q.lock(shard): CAS locks[shard] 0→1 (blocked while held)
  | append   -- trigger := len(getters[shard]) == 0 ; append
  | unlock   -- q.unlock(shard)
  | lLock    -- triggering: q.listLock.Lock()
  | lWrite   -- q.w = (q.w + 1) % q.size ; q.list[q.w] = shard   (one run of plain accesses under the list lock)
  | lUnlock  -- q.listLock.Unlock()
  | trig     -- atomic.AddInt32(&q.trigger, 1) > 1 ?
  | run      -- foreach: atomic.AddInt32(&q.runNum, 1) > 1 ?
  | spawn    -- runner.RunTask(nil, closure)
  | done
  deriving DecidableEq, Repr, Inhabited

structure Adder where
  pc : APc
  gts : List Nat        -- ids of the getters passed to this Add
  shard : Nat := 0
  wasEmpty : Bool := false
  deriving DecidableEq, Repr, Inhabited

/-- program counter of the loop worker -/
inductive WPc
  | idle     -- no loop worker
  | load     -- triggerNum := atomic.LoadInt32(&q.trigger)
  | rd       -- q.r = (q.r + 1) % q.size ; shared := q.list[q.r]   (one run of plain accesses)
  | lock     -- q.lock(shared)
  | swap     -- tmp := getters[shared]; getters[shared] = swap[:0]; swap = tmp
  | unlock   -- q.unlock(shared)
  | dealCall -- q.deal(q.swap): plain read of q.swap
  | isAct    -- deal: q.conn.IsActive()
  | deal     -- deal: gt() and writer.Append(buf) for the next getter of q.swap
  | sub      -- triggerNum = atomic.AddInt32(&q.trigger, negNum)
  | flush    -- q.conn.Writer().Flush()
  | store    -- atomic.StoreInt32(&q.runNum, 0)
  deriving DecidableEq, Repr, Inhabited

/-- program counters of a worker after `runNum := 0` -/
inductive TPc
  | recheck  -- atomic.LoadInt32(&q.trigger) > 0 ?
  | run      -- q.foreach(): atomic.AddInt32(&q.runNum, 1) > 1 ?
  | spawn    -- runner.RunTask
  deriving DecidableEq, Repr, Inhabited

/-- program counters of a `Close` call (`lock … trig` are the steps of `drained`) -/
inductive CPc
  | cas      -- CAS state active→closing
  | lock     -- drained: q.lock(shard)
  | read     -- drained: n := len(q.getters[shard])
  | unlock   -- drained: q.unlock(shard); n != 0 ⇒ return false (Close: runtime.Gosched(), drained again)
  | trig     -- drained: return atomic.LoadInt32(&q.trigger) == 0
  | store    -- atomic.StoreInt32(&q.state, closed); return nil
  deriving DecidableEq, Repr, Inhabited

structure S where
  size : Nat
  -- shared words of ShardQueue / queueTrigger
  state : Nat := 0
  idx : Nat := 0               -- number of increments of q.idx (its int32 value is `wrap32 idx`)
  trigger : Int := 0
  runNum : Nat := 0
  w : Nat := 0
  r : Nat := 0
  list : List Nat              -- the trigger ring, length = size
  listLock : Nat := 0
  locks : List Nat             -- length = size
  getters : List (List Nat)    -- length = size, getter ids per shard
  swap : List Nat := []
  -- stub connection
  alive : Bool := true
  wbuf : List Nat := []        -- appended, not flushed
  sent : List Nat := []        -- flushed
  -- adders
  adders : List Adder := []
  -- loop worker locals
  wpc : WPc := .idle
  trigNum : Int := 0
  negNum : Int := 0
  shared : Nat := 0
  work : List Nat := []        -- part of q.swap not yet dealt
  -- tail workers (counter abstraction)
  tRecheck : Nat := 0
  tRun : Nat := 0
  tSpawn : Nat := 0
  -- Close calls: before their CAS (counted); the one that won the CAS
  cCas : Nat := 0
  cwin : Option CPc := none
  cShard : Nat := 0            -- drained: loop variable `shard`
  cN : Nat := 0                -- drained: local `n`
  -- ghost
  nextId : Nat := 0
  ignored : List Nat := []     -- getters of an Add that saw state ≠ active
  skipped : List Nat := []     -- dropped by deal: connection not active / after an Append error
  invoked : List Nat := []     -- getter called, in order
  notApp : List Nat := []      -- invoked but nothing appended (isNil or Append error)
  ring : List Nat := []        -- unconsumed ring entries, oldest first
  nRead : Nat := 0
  nWritten : Nat := 0
  clash : Nat := 0             -- a second loop worker was started
  closeOk : Nat := 0           -- Close calls that returned nil
  closeErr : Nat := 0          -- Close calls that returned the "has been closed" error
  closeSnap : List Nat := []   -- getters queued (shards, swap, worker) at the CAS of the Close that won it
  deriving Repr

def init (size : Nat) : S :=
  { size := size, list := List.replicate size 0, locks := List.replicate size 0,
    getters := List.replicate size [] }

inductive Act
  | add (n : Nat)             -- environment: a goroutine calls Add with n getters
  | close                     -- environment: a goroutine calls Close
  | die                       -- environment: the connection becomes inactive
  | adder (i : Nat)           -- adder i performs its next atomic step
  | wk (isNil err : Bool)     -- the loop worker performs its next step (getter / Append / Flush outcome)
  | tail (pc : TPc)           -- one tail worker at pc performs its step
  | closer (pc : CPc)         -- one closer at pc performs its step
  deriving DecidableEq, Repr

def Act.isEnv : Act → Bool
  | .add _ | .close | .die => true
  | _ => false

/-- `runner.RunTask(nil, closure)`: a new loop worker starts at its first load -/
def spawnWorker (s : S) : S :=
  { s with wpc := if s.wpc = .idle then .load else s.wpc,
           trigNum := if s.wpc = .idle then 0 else s.trigNum,
           negNum := if s.wpc = .idle then 0 else s.negNum,
           clash := if s.wpc = .idle then s.clash else s.clash + 1 }

def setAdder (s : S) (i : Nat) (a : Adder) : S := { s with adders := s.adders.set i a }

def stepAdder (s : S) (i : Nat) : Option S :=
  match s.adders[i]? with
  | none => none
  | some a =>
    match a.pc with
    | .state =>
      if s.state = active then some (setAdder s i { a with pc := .idx })
      else some (setAdder { s with ignored := s.ignored ++ a.gts } i { a with pc := .done })
    | .idx =>
      if s.size = 0 then none   -- integer divide by zero: NewShardQueue(0, …) is out of scope
      else some (setAdder { s with idx := s.idx + 1 } i { a with pc := .lock, shard := shardOf (s.idx + 1) s.size })
    | .lock =>
      if s.locks[a.shard]? = some 0 then
        some (setAdder { s with locks := s.locks.set a.shard 1 } i { a with pc := .append })
      else none
    | .append =>
      match s.getters[a.shard]? with
      | none => none
      | some g =>
        some (setAdder { s with getters := s.getters.set a.shard (g ++ a.gts) } i
                { a with pc := .unlock, wasEmpty := g.isEmpty })
    | .unlock =>
      some (setAdder { s with locks := s.locks.set a.shard 0 } i
              { a with pc := if a.wasEmpty then .lLock else .done })
    | .lLock =>
      if s.listLock = 0 then some (setAdder { s with listLock := 1 } i { a with pc := .lWrite }) else none
    | .lWrite =>
      some (setAdder { s with w := (s.w + 1) % s.size, list := s.list.set ((s.w + 1) % s.size) a.shard,
                              ring := s.ring ++ [a.shard], nWritten := s.nWritten + 1 } i
              { a with pc := .lUnlock })
    | .lUnlock => some (setAdder { s with listLock := 0 } i { a with pc := .trig })
    | .trig =>
      some (setAdder { s with trigger := s.trigger + 1 } i
              { a with pc := if s.trigger + 1 > 1 then .done else .run })
    | .run =>
      some (setAdder { s with runNum := s.runNum + 1 } i
              { a with pc := if s.runNum + 1 > 1 then .done else .spawn })
    | .spawn => some (setAdder (spawnWorker s) i { a with pc := .done })
    | .done => none

/-- bookkeeping after `deal` returns: `negNum--`, then either the batched subtraction or the next entry -/
def endDeal (s : S) : S :=
  { s with negNum := s.negNum - 1, wpc := if s.trigNum + (s.negNum - 1) = 0 then .sub else .rd }

def stepWorker (s : S) (isNil err : Bool) : Option S :=
  match s.wpc with
  | .idle => none
  | .load =>
    if s.trigger > 0 then some { s with trigNum := s.trigger, wpc := .rd }
    else some { s with trigNum := s.trigger, wpc := .flush }
  | .rd =>
    match s.list[(s.r + 1) % s.size]? with
    | none => none
    | some sh => some { s with r := (s.r + 1) % s.size, shared := sh, ring := s.ring.drop 1,
                               nRead := s.nRead + 1, wpc := .lock }
  | .lock =>
    if s.locks[s.shared]? = some 0 then some { s with locks := s.locks.set s.shared 1, wpc := .swap }
    else none
  | .swap =>
    match s.getters[s.shared]? with
    | none => none
    | some g => some { s with swap := g, getters := s.getters.set s.shared [], wpc := .unlock }
  | .unlock => some { s with locks := s.locks.set s.shared 0, wpc := .dealCall }
  | .dealCall => some { s with work := s.swap, wpc := .isAct }
  | .isAct =>
    if s.alive then
      (match s.work with
       | [] => some (endDeal s)
       | _ :: _ => some { s with wpc := .deal })
    else some (endDeal { s with skipped := s.skipped ++ s.work, work := [] })
  | .deal =>
    match s.work with
    | [] => none
    | id :: rest =>
      if isNil then
        let s1 := { s with invoked := s.invoked ++ [id], notApp := s.notApp ++ [id], work := rest }
        (match rest with
         | [] => some (endDeal s1)
         | _ :: _ => some s1)
      else if err then
        some (endDeal { s with invoked := s.invoked ++ [id], notApp := s.notApp ++ [id], alive := false,
                               skipped := s.skipped ++ rest, work := [] })
      else
        let s1 := { s with invoked := s.invoked ++ [id], wbuf := s.wbuf ++ [id], work := rest }
        (match rest with
         | [] => some (endDeal s1)
         | _ :: _ => some s1)
  | .sub =>
    if s.trigger + s.negNum > 0 then
      some { s with trigger := s.trigger + s.negNum, trigNum := s.trigger + s.negNum, negNum := 0, wpc := .rd }
    else
      some { s with trigger := s.trigger + s.negNum, trigNum := s.trigger + s.negNum, negNum := 0, wpc := .flush }
  | .flush =>
    if s.alive ∧ err = false then some { s with sent := s.sent ++ s.wbuf, wbuf := [], wpc := .store }
    else some { s with alive := false, wpc := .store }
  | .store => some { s with runNum := 0, wpc := .idle, tRecheck := s.tRecheck + 1 }

def stepTail (s : S) : TPc → Option S
  | .recheck =>
    if s.tRecheck = 0 then none
    else if s.trigger > 0 then some { s with tRecheck := s.tRecheck - 1, tRun := s.tRun + 1 }
    else some { s with tRecheck := s.tRecheck - 1 }   -- the closure returns
  | .run =>
    if s.tRun = 0 then none
    else if s.runNum + 1 > 1 then some { s with tRun := s.tRun - 1, runNum := s.runNum + 1 }
    else some { s with tRun := s.tRun - 1, runNum := s.runNum + 1, tSpawn := s.tSpawn + 1 }
  | .spawn =>
    if s.tSpawn = 0 then none
    else some (spawnWorker { s with tSpawn := s.tSpawn - 1 })

/-- the getters that are queued: in a shard, swapped out but not yet taken by `deal`, or in the worker's hands -/
def queued (s : S) : List Nat :=
  s.getters.flatten ++ (if s.wpc = .unlock ∨ s.wpc = .dealCall then s.swap else []) ++ s.work

/-- `Close` enters `drained()`: `for shard := 0; shard < q.size; …` – the first lock, or with no shard the load of `trigger` -/
def enterDrained (s : S) : S :=
  { s with cShard := 0, cwin := if 0 < s.size then some .lock else some .trig }

def stepCloser (s : S) (pc : CPc) : Option S :=
  match pc with
  | .cas =>
    if s.cCas = 0 then none
    else if s.state = active then
      some (enterDrained { s with cCas := s.cCas - 1, state := closing, closeSnap := queued s })
    else some { s with cCas := s.cCas - 1, closeErr := s.closeErr + 1 }
  | .lock =>
    if s.cwin ≠ some .lock then none
    else if s.locks[s.cShard]? = some 0 then some { s with locks := s.locks.set s.cShard 1, cwin := some .read }
    else none
  | .read =>
    if s.cwin ≠ some .read then none
    else match s.getters[s.cShard]? with
      | none => none
      | some g => some { s with cN := g.length, cwin := some .unlock }
  | .unlock =>
    if s.cwin ≠ some .unlock then none
    else if s.cN ≠ 0 then some (enterDrained { s with locks := s.locks.set s.cShard 0 })   -- false; Gosched; drained again
    else if s.cShard + 1 < s.size then
      some { s with locks := s.locks.set s.cShard 0, cShard := s.cShard + 1, cwin := some .lock }
    else some { s with locks := s.locks.set s.cShard 0, cShard := s.cShard + 1, cwin := some .trig }
  | .trig =>
    if s.cwin ≠ some .trig then none
    else if s.trigger = 0 then some { s with cwin := some .store }
    else some (enterDrained s)                                                                -- false; Gosched; drained again
  | .store =>
    if s.cwin ≠ some .store then none
    else some { s with cwin := none, state := closed, closeOk := s.closeOk + 1 }

/-- a new `Add` call with `n` getters (ids `first …`).  `if len(gts) == 0 { return }` is local to the call:
    an Add without getters returns without an atomic step -/
def newAdder (first n : Nat) : Adder := { pc := if n = 0 then .done else .state, gts := List.range' first n }

def step (s : S) : Act → Option S
  | .add n => some { s with adders := s.adders ++ [newAdder s.nextId n], nextId := s.nextId + n }
  | .close => some { s with cCas := s.cCas + 1 }
  | .die => some { s with alive := false }
  | .adder i => stepAdder s i
  | .wk isNil err => stepWorker s isNil err
  | .tail pc => stepTail s pc
  | .closer pc => stepCloser s pc

/-- run a schedule -/
def run (s : S) : List Act → Option S
  | [] => some s
  | a :: as => match step s a with
    | none => none
    | some s' => run s' as

/-- reachable from a fresh queue of `size` shards -/
def Reachable (size : Nat) (s : S) : Prop := ∃ acts, run (init size) acts = some s

/-- an Add call, the loop worker or a tail worker (everything but the environment and Close calls) -/
def Act.isQueue : Act → Bool
  | .adder _ | .wk _ _ | .tail _ => true
  | _ => false

/-- … or the Close call inside the critical section of a shard (`drained` between lock and unlock) -/
def Act.isWork : Act → Bool
  | .adder _ | .wk _ _ | .tail _ | .closer .read | .closer .unlock => true
  | _ => false

/-- no actor of the queue can move (new calls and the connection dying are the environment's) -/
def Quiescent (s : S) : Prop := ∀ a, a.isEnv = false → step s a = none

/-- no Add call and no worker can move, and no Close call holds a shard lock (Close calls may still be polling) -/
def QuiescentQ (s : S) : Prop := ∀ a, a.isWork = true → step s a = none

/-- in-contract executions: at least one shard (`NewShardQueue(0, …)` divides by zero in `Add`) -/
def InContract (s : S) : Prop := 0 < s.size

end Netpoll.Shard
