import Netpoll.ManagerSpec
/-!
Helper lemmas and the inductive invariant for the poller-pool model (C18).
`Good s` is proved for every state reachable from `newManager n`, `n ≥ 1`, as long as the
environment has injected no `openPoll` failure and no round-robin ticket ≥ 2^63 was handed out
(`Clean`): `good_init`, `good_step`, `good_reachable`.
-/
namespace Netpoll.Manager
open Netpoll.Gen

/-! ### lists -/

theorem split_at {α} (l : List α) (i : Nat) (x : α) (hx : l[i]? = some x) :
    l = l.take i ++ x :: l.drop (i + 1) ∧ i < l.length := by
  have hi : i < l.length := by
    rcases Nat.lt_or_ge i l.length with h | h
    · exact h
    · simp [List.getElem?_eq_none h] at hx
  have hx' : l[i] = x := by simpa [List.getElem?_eq_getElem hi] using hx
  refine ⟨?_, hi⟩
  conv => lhs; rw [← List.take_append_drop i l, List.drop_eq_getElem_cons hi, hx']

theorem mem_take_le {α} (l : List α) (n i : Nat) (h : n ≤ i) (y : α) (hy : y ∈ l.take n) : y ∈ l.take i := by
  have : l.take n = (l.take i).take n := by rw [List.take_take]; congr; omega
  rw [this] at hy
  exact List.mem_of_mem_take hy

theorem close_step (l : List Nat) (i n x : Nat) (hn : n ≤ i) (hx : l[i]? = some x) (nd : l.Nodup) :
    (∀ y, y ∈ l.take n → y ≠ x) ∧ (∀ y, y ∈ l.drop (i + 1) → y ≠ x) ∧ l.drop i = x :: l.drop (i + 1) := by
  obtain ⟨hl, hi⟩ := split_at l i x hx
  have nd' := nd
  rw [hl, List.nodup_append] at nd'
  obtain ⟨_, n2, n3⟩ := nd'
  rw [List.nodup_cons] at n2
  refine ⟨?_, ?_, ?_⟩
  · intro y hy hxy
    have := mem_take_le l n i hn y hy
    exact n3 y this x (by simp) hxy
  · intro y hy hxy; subst hxy; exact n2.1 hy
  · have hx' : l[i] = x := by simpa [List.getElem?_eq_getElem hi] using hx
    rw [List.drop_eq_getElem_cons hi, hx']

/-! ### the invariant -/

/-- no injected `openPoll` failure, no ticket ≥ 2^63 so far (both counters only grow) -/
def Clean (s : S) : Prop := s.fails = 0 ∧ s.wraps = 0

instance (s : S) : Decidable (Clean s) := inferInstanceAs (Decidable (_ ∧ _))

/-- `l` consists of distinct running pollers and accounts for every poller still open -/
def SliceOK (opened : Nat) (started closed : List Nat) (l : List Nat) : Prop :=
  l.Nodup ∧ (∀ id, id ∈ l → id < opened ∧ id ∈ started ∧ id ∉ closed) ∧
  (∀ id, id < opened → id ∈ l ∨ id ∈ closed)

/-- the ghost logs: each poller closed at most once, started at most once, closed only if started -/
def Logs (opened : Nat) (started closed : List Nat) : Prop :=
  closed.Nodup ∧ started.Nodup ∧ (∀ id, id ∈ closed → id ∈ started) ∧ (∀ id, id ∈ started → id < opened)

/-- the balancer's snapshot is the manager's slice -/
def Synced (bal : Option Bal) (polls : List Nat) : Prop :=
  ∃ b, bal = some b ∧ b.polls = polls ∧ b.size = polls.length

/-- what the goroutine inside `Run` knows at each of its program counters -/
def RunInv (numLoops : Nat) (polls : List Nat) (bal : Option Bal) (opened : Nat) (started closed : List Nat)
    (r : Runner) : Prop :=
  match r.pc with
  | .load => SliceOK opened started closed polls ∧ Synced bal polls
  | .close =>
    r.n = numLoops ∧ r.np = polls.take r.n ∧ r.n ≤ r.idx ∧ r.idx < polls.length ∧ polls.Nodup ∧
    (∀ id, id ∈ polls → id < opened ∧ id ∈ started) ∧
    (∀ id, id ∈ polls.take r.n ∨ id ∈ polls.drop r.idx → id ∉ closed) ∧
    (∀ id, id < opened → id ∈ polls.take r.n ∨ id ∈ polls.drop r.idx ∨ id ∈ closed) ∧
    bal.isSome
  | .open => r.n = numLoops ∧ r.idx = r.np.length ∧ r.idx < r.n ∧ SliceOK opened started closed r.np ∧ bal.isSome
  | .go =>
    r.n = numLoops ∧ r.idx < r.n ∧ bal.isSome ∧ 0 < opened ∧
    ∃ l, r.np = l ++ [opened - 1] ∧ r.idx = l.length ∧ l.Nodup ∧
      (∀ id, id ∈ l → id < opened - 1 ∧ id ∈ started ∧ id ∉ closed) ∧
      (∀ id, id < opened - 1 → id ∈ l ∨ id ∈ closed) ∧
      (opened - 1) ∉ started ∧ (opened - 1) ∉ closed
  | .store => r.n = numLoops ∧ r.np.length = r.n ∧ SliceOK opened started closed r.np ∧ bal.isSome
  | .rebal1 => polls.length = numLoops ∧ SliceOK opened started closed polls ∧ bal.isSome
  | .rebal2 => polls.length = numLoops ∧ SliceOK opened started closed polls ∧ ∃ b, bal = some b ∧ b.polls = polls
  | .eclose => False
  | .eclear => False

/-- who holds the initialisation lock -/
def LockInv (status numLoops : Nat) (polls : List Nat) (bal : Option Bal) (cCas2 : Nat) (runners : List Runner)
    (opened : Nat) (started closed : List Nat) : Prop :=
  match runners with
  | [] =>
    SliceOK opened started closed polls ∧ Synced bal polls ∧
    ((cCas2 = 0 ∧ status ≠ 1) ∨ (cCas2 = 1 ∧ status = 1 ∧ polls.length = numLoops))
  | [r] => status = 1 ∧ cCas2 = 0 ∧ RunInv numLoops polls bal opened started closed r
  | _ :: _ :: _ => False

structure Core (s : S) : Prop where
  nl : 1 ≤ s.numLoops
  st : s.status ≤ 2
  logs : Logs s.opened s.started s.closed
  np : s.panics = 0
  lock : LockInv s.status s.numLoops s.polls s.bal s.cCas2 s.runners s.opened s.started s.closed
  sized : s.status = 2 → s.polls.length = s.numLoops
  inbal : (0 < s.cBal ∨ s.tk ≠ [] ∨ s.ix ≠ [] ∨ s.rets ≠ []) → s.status = 2
  tks : ∀ c, c ∈ s.tk → c < two63
  ixs : ∀ i, i ∈ s.ix → 0 ≤ i ∧ i < (s.polls.length : Int)
  rts : ∀ id, id ∈ s.rets → id ∈ s.polls

def Good (s : S) : Prop := Clean s → Core s

@[simp] theorem cU : c_managerUninitialized = 0 := rfl
@[simp] theorem cI : c_managerInitializing = 1 := rfl
@[simp] theorem cD : c_managerInitialized = 2 := rfl
@[simp] theorem cRR : c_RoundRobin = 0 := rfl
@[simp] theorem cRnd : c_Random = 1 := rfl

set_option linter.unusedSimpArgs false

/-! ### one-step preservation, action by action -/

theorem core_spawn (s s' : S) (h : Core s) (hs : step s .spawn = some s') : Core s' := by
  simp only [step] at hs
  cases hs
  exact { h with }

theorem lock_not1 {status numLoops polls bal cCas2 runners opened started closed}
    (h : LockInv status numLoops polls bal cCas2 runners opened started closed) (h2 : status ≠ 1) :
    runners = [] ∧ cCas2 = 0 ∧ SliceOK opened started closed polls ∧ Synced bal polls := by
  unfold LockInv at h
  split at h
  · obtain ⟨a, b, c⟩ := h
    rcases c with c | c
    · exact ⟨rfl, c.1, a, b⟩
    · exact absurd c.2.1 h2
  · exact absurd h.1 h2
  · exact h.elim

theorem core_cas (s s' : S) (h : Core s) (hs : step s .cas = some s') : Core s' := by
  simp only [step] at hs
  split at hs
  · cases hs
  split at hs
  · cases hs
    rename_i h1 h2
    simp at h2
    obtain ⟨hr, hc2, hsl, hsy⟩ := lock_not1 h.lock (by omega)
    have hnb : ¬ (0 < s.cBal ∨ s.tk ≠ [] ∨ s.ix ≠ [] ∨ s.rets ≠ []) := fun hp => by
      have := h.inbal hp; omega
    refine { h with st := by simp, lock := ?_, sized := by simp, inbal := fun hp => absurd hp hnb }
    simp only [hr, List.nil_append, LockInv, RunInv, cI]
    exact ⟨trivial, hc2, hsl, hsy⟩
  · cases hs
    exact { h with }

theorem core_cas2 (s s' : S) (h : Core s) (hs : step s .cas2 = some s') : Core s' := by
  simp only [step] at hs
  split at hs
  · cases hs
  rename_i h1
  have hl := h.lock
  unfold LockInv at hl
  split at hl
  · rename_i hr
    obtain ⟨hsl, hsy, hd⟩ := hl
    rcases hd with hd | hd
    · exact absurd hd.1 h1
    · split at hs
      · cases hs
        refine { h with st := by simp, lock := ?_, sized := fun _ => hd.2.2, inbal := fun _ => by simp }
        simp only [hr, LockInv, cD]
        exact ⟨hsl, hsy, Or.inl ⟨by omega, by omega⟩⟩
      · rename_i h2; simp at h2; exact absurd hd.2.1 h2
  · exact absurd hl.2.1 h1
  · exact hl.elim

theorem core_load (s s' : S) (h : Core s) (hs : step s .load = some s') : Core s' := by
  simp only [step] at hs
  split at hs
  · cases hs
  split at hs
  · cases hs
    rename_i h1 h2
    simp at h2
    exact { h with inbal := fun _ => h2 }
  · cases hs
    exact { h with }

/-- replacing the balancer by another one that is in step keeps the lock invariant when nobody runs -/
theorem lock_setbal {status numLoops polls bal bal' cCas2 runners opened started closed}
    (h : LockInv status numLoops polls bal cCas2 runners opened started closed) (hr : runners = [])
    (hb : Synced bal' polls) : LockInv status numLoops polls bal' cCas2 runners opened started closed := by
  subst hr
  unfold LockInv at *
  exact ⟨h.1, hb, h.2.2⟩

theorem core_balEnter (s s' : S) (r : Nat) (h : Core s) (hs : step s (.balEnter r) = some s') (hc : Clean s') :
    Core s' := by
  simp only [step] at hs
  split at hs
  · cases hs
  rename_i h1
  have hst : s.status = 2 := h.inbal (Or.inl (by omega))
  obtain ⟨hr, hc2, hsl, b, hb, hbp, hbs⟩ := lock_not1 h.lock (by omega)
  rw [hb] at hs
  simp only at hs
  have hlen := h.sized hst
  have hnl := h.nl
  split at hs
  · -- round robin
    cases hs
    have hw : rrNext b.acc < two63 := by
      have := hc.2
      simp only at this
      split at this <;> omega
    refine { h with lock := lock_setbal h.lock hr ⟨_, rfl, hbp, hbs⟩, inbal := fun _ => hst, tks := ?_ }
    intro c hcm
    simp only [List.mem_append, List.mem_singleton] at hcm
    rcases hcm with hcm | hcm
    · exact h.tks c hcm
    · exact hcm ▸ hw
  · -- random
    split at hs
    · omega
    split at hs
    · cases hs
      rename_i hlt
      refine { h with lock := lock_setbal h.lock hr ⟨_, rfl, hbp, hbs⟩, inbal := fun _ => hst, ixs := ?_ }
      intro i hi
      simp only [List.mem_append, List.mem_singleton] at hi
      rcases hi with hi | hi
      · exact h.ixs i hi
      · subst hi; show (0:Int) ≤ r ∧ (r:Int) < (s.polls.length : Int); omega
    · cases hs

theorem core_balSize (s s' : S) (j : Nat) (h : Core s) (hs : step s (.balSize j) = some s') : Core s' := by
  simp only [step] at hs
  split at hs
  · cases hs
  rename_i c hj
  have hcm : c ∈ s.tk := List.mem_of_getElem? hj
  have hst : s.status = 2 := h.inbal (Or.inr (Or.inl (List.ne_nil_of_mem hcm)))
  obtain ⟨hr, hc2, hsl, b, hb, hbp, hbs⟩ := lock_not1 h.lock (by omega)
  rw [hb] at hs
  simp only at hs
  have hlen := h.sized hst
  have hnl := h.nl
  have hc63 := h.tks c hcm
  have hidx : rrIndex c b.size = some (Int.tmod (c : Int) (s.polls.length : Int)) := by
    simp only [rrIndex, goRem, toInt64, hc63, if_true, hbs]
    rw [if_neg (by omega)]
  rw [hidx] at hs
  cases hs
  refine { h with lock := lock_setbal h.lock hr ⟨_, rfl, hbp, hbs⟩, inbal := fun _ => hst,
                  tks := fun c hc => h.tks c (List.mem_of_mem_eraseIdx hc), ixs := ?_ }
  intro i hi
  simp only [List.mem_append, List.mem_singleton] at hi
  rcases hi with hi | hi
  · exact h.ixs i hi
  · subst hi
    exact ⟨Int.tmod_nonneg _ (by omega), Int.tmod_lt_of_pos _ (by omega)⟩

theorem core_balIdx (s s' : S) (j : Nat) (h : Core s) (hs : step s (.balIdx j) = some s') : Core s' := by
  simp only [step] at hs
  split at hs
  · cases hs
  rename_i i hj
  have him : i ∈ s.ix := List.mem_of_getElem? hj
  have hst : s.status = 2 := h.inbal (Or.inr (Or.inr (Or.inl (List.ne_nil_of_mem him))))
  obtain ⟨hr, hc2, hsl, b, hb, hbp, hbs⟩ := lock_not1 h.lock (by omega)
  rw [hb] at hs
  simp only at hs
  obtain ⟨hi0, hi1⟩ := h.ixs i him
  have hlt : i.toNat < s.polls.length := by omega
  have hget : sliceIndex b.polls i = some (s.polls[i.toNat]) := by
    simp only [sliceIndex, hbp]
    rw [if_neg (by omega), List.getElem?_eq_getElem hlt]
  rw [hget] at hs
  cases hs
  refine { h with lock := lock_setbal h.lock hr ⟨_, rfl, hbp, hbs⟩, inbal := fun _ => hst,
                  ixs := fun i hi => h.ixs i (List.mem_of_mem_eraseIdx hi), rts := ?_ }
  intro id hid
  simp only [List.mem_append, List.mem_singleton] at hid
  rcases hid with hid | hid
  · exact h.rts id hid
  · subst hid; exact List.getElem_mem hlt

theorem inflight0 (s : S) (h : s.inflight = 0) :
    s.cLoad = 0 ∧ s.cCas = 0 ∧ s.runners = [] ∧ s.cCas2 = 0 ∧ s.cBal = 0 ∧ s.tk = [] ∧ s.ix = [] := by
  unfold S.inflight at h
  refine ⟨by omega, by omega, List.eq_nil_of_length_eq_zero (by omega), by omega, by omega,
    List.eq_nil_of_length_eq_zero (by omega), List.eq_nil_of_length_eq_zero (by omega)⟩

theorem core_setNumLoops (s s' : S) (n : Nat) (h : Core s) (hs : step s (.setNumLoops n) = some s') : Core s' := by
  simp only [step] at hs
  split at hs
  · rename_i h0
    obtain ⟨_, _, hr, hc2, hcb, htk, hix⟩ := inflight0 s h0
    cases hs
    simp only [setNumLoops]
    split
    · refine { h with inbal := ?_, rts := by simp }
      simp [hcb, htk, hix]
    · have hl := h.lock
      rw [hr] at hl
      unfold LockInv at hl
      refine { h with nl := by simp; omega, st := by simp, lock := ?_, sized := by simp, inbal := ?_, rts := by simp }
      · simp only [hr]; unfold LockInv
        exact ⟨hl.1, hl.2.1, Or.inl ⟨hc2, by simp⟩⟩
      · simp [hcb, htk, hix]
  · cases hs

theorem core_setLB (s s' : S) (k : Nat) (h : Core s) (hs : step s (.setLB k) = some s') : Core s' := by
  simp only [step] at hs
  split at hs
  · rename_i h0
    obtain ⟨_, _, hr, hc2, hcb, htk, hix⟩ := inflight0 s h0
    cases hs
    have hnb : ¬ (0 < s.cBal ∨ s.tk ≠ [] ∨ s.ix ≠ [] ∨ ([] : List Nat) ≠ []) := by simp [hcb, htk, hix]
    simp only [setLoadBalance]
    split
    · split
      · exact { h with inbal := fun hp => absurd hp hnb, rts := by simp }
      · refine { h with lock := lock_setbal h.lock hr ⟨_, rfl, rfl, rfl⟩, inbal := fun hp => absurd hp hnb, rts := by simp }
    · refine { h with lock := lock_setbal h.lock hr ⟨_, rfl, rfl, rfl⟩, inbal := fun hp => absurd hp hnb, rts := by simp }
  · cases hs

/-- with a goroutine inside `Run`, nobody is in the balancer and nothing has been returned this phase -/
theorem nobal_of_status1 {s : S} (h : Core s) (h1 : s.status = 1) :
    s.cBal = 0 ∧ s.tk = [] ∧ s.ix = [] ∧ s.rets = [] := by
  have hn : ¬ (0 < s.cBal ∨ s.tk ≠ [] ∨ s.ix ≠ [] ∨ s.rets ≠ []) := fun hp => by have := h.inbal hp; omega
  refine ⟨by omega, ?_, ?_, ?_⟩
  · cases ht : s.tk with
    | nil => rfl
    | cons a l => exact absurd (Or.inr (Or.inl (by simp [ht]))) hn
  · cases ht : s.ix with
    | nil => rfl
    | cons a l => exact absurd (Or.inr (Or.inr (Or.inl (by simp [ht])))) hn
  · cases ht : s.rets with
    | nil => rfl
    | cons a l => exact absurd (Or.inr (Or.inr (Or.inr (by simp [ht])))) hn

theorem core_run (s s' : S) (i : Nat) (fail : Bool) (h : Core s) (hs : step s (.run i fail) = some s')
    (hc : Clean s') : Core s' := by
  simp only [step, runStep] at hs
  have hl := h.lock
  rcases hr : s.runners with _ | ⟨r, _ | ⟨r2, rest⟩⟩
  · simp [hr] at hs
  rotate_left
  · rw [hr] at hl; unfold LockInv at hl; exact hl.elim
  rw [hr] at hl
  unfold LockInv at hl
  obtain ⟨h1, hc2, hri⟩ := hl
  obtain ⟨hcb, htk, hix, hrets⟩ := nobal_of_status1 h h1
  have hnb : ¬ (0 < s.cBal ∨ s.tk ≠ [] ∨ s.ix ≠ [] ∨ s.rets ≠ []) := by simp [hcb, htk, hix, hrets]
  have hixs : ∀ (l : List Nat) (i : Int), i ∈ s.ix → 0 ≤ i ∧ i < (l.length : Int) := by simp [hix]
  have hrts : ∀ (l : List Nat) (id : Nat), id ∈ s.rets → id ∈ l := by simp [hrets]
  rw [hr] at hs
  cases i with
  | succ i => simp at hs
  | zero =>
  simp only [List.getElem?_cons_zero] at hs
  unfold RunInv at hri
  obtain ⟨hlc, hls, hlcs, hlso⟩ := h.logs
  cases hpc : r.pc <;> simp only [hpc] at hs hri
  case load =>
    obtain ⟨hsl, hsy⟩ := hri
    obtain ⟨b, hb, hbp, hbs⟩ := hsy
    split at hs
    · cases hs
      rename_i heq
      refine { h with lock := ?_ }
      simp only [S.runReturn, hr, List.eraseIdx_cons_zero]
      unfold LockInv
      exact ⟨hsl, ⟨b, hb, hbp, hbs⟩, Or.inr ⟨by omega, h1, heq.symm⟩⟩
    split at hs
    · cases hs
      rename_i hne hlt
      refine { h with lock := ?_ }
      simp only [S.setRunner, hr, List.set_cons_zero]
      unfold LockInv RunInv
      refine ⟨h1, hc2, rfl, rfl, Nat.le_refl _, hlt, hsl.1, fun id hid => ⟨(hsl.2.1 id hid).1, (hsl.2.1 id hid).2.1⟩, ?_, ?_, by simp [hb]⟩
      · intro id hid
        rcases hid with hid | hid
        · exact (hsl.2.1 id (List.mem_of_mem_take hid)).2.2
        · exact (hsl.2.1 id (List.mem_of_mem_drop hid)).2.2
      · intro id hid
        rcases hsl.2.2 id hid with hm | hm
        · rw [← List.take_append_drop s.numLoops s.polls, List.mem_append] at hm
          rcases hm with hm | hm
          · exact Or.inl hm
          · exact Or.inr (Or.inl hm)
        · exact Or.inr (Or.inr hm)
    · cases hs
      rename_i hne hlt
      refine { h with lock := ?_ }
      simp only [S.setRunner, hr, List.set_cons_zero]
      unfold LockInv RunInv
      exact ⟨h1, hc2, rfl, rfl, by simp only; omega, hsl, by simp [hb]⟩
  case close =>
    obtain ⟨hn, hnp, hni, hil, hnd, hmem, hncl, hcov, hbal⟩ := hri
    split at hs
    · rename_i hnone
      rw [List.getElem?_eq_none_iff] at hnone
      omega
    rename_i id hid
    obtain ⟨c1, c2, c3⟩ := close_step s.polls r.idx r.n id hni hid hnd
    have hidm : id ∈ s.polls := List.mem_of_getElem? hid
    have hidnc : id ∉ s.closed := hncl id (Or.inr (by rw [c3]; simp))
    have hlogs : Logs s.opened s.started (s.closed ++ [id]) := by
      refine ⟨?_, hls, ?_, hlso⟩
      · rw [List.nodup_append]
        refine ⟨hlc, by simp, ?_⟩
        intro a ha b hb
        simp only [List.mem_singleton] at hb
        subst hb
        intro hab; subst hab; exact hidnc ha
      · intro x hx
        simp only [List.mem_append, List.mem_singleton] at hx
        rcases hx with hx | hx
        · exact hlcs x hx
        · subst hx; exact (hmem _ hidm).2
    split at hs
    · cases hs
      rename_i hlt
      refine { h with logs := hlogs, lock := ?_ }
      simp only [S.setRunner, hr, List.set_cons_zero]
      unfold LockInv RunInv
      refine ⟨h1, hc2, ?_⟩
      refine ⟨hn, hnp, Nat.le_succ_of_le hni, hlt, hnd, hmem, ?_, ?_, hbal⟩
      · intro x hx
        simp only [List.mem_append, List.mem_singleton, not_or]
        rcases hx with hx | hx
        · exact ⟨hncl x (Or.inl hx), c1 x hx⟩
        · exact ⟨hncl x (Or.inr (by rw [c3]; exact List.mem_cons_of_mem _ hx)), c2 x hx⟩
      · intro x hx
        rcases hcov x hx with hm | hm | hm
        · exact Or.inl hm
        · rw [c3, List.mem_cons] at hm
          rcases hm with hm | hm
          · exact Or.inr (Or.inr (by simp [hm]))
          · exact Or.inr (Or.inl hm)
        · exact Or.inr (Or.inr (by simp [hm]))
    · cases hs
      rename_i hge
      have hdrop : s.polls.drop (r.idx + 1) = [] := List.drop_eq_nil_of_le (by omega)
      refine { h with logs := hlogs, lock := ?_ }
      simp only [S.setRunner, hr, List.set_cons_zero]
      unfold LockInv RunInv
      refine ⟨h1, hc2, ?_⟩
      simp only
      refine ⟨hn, by rw [hnp, List.length_take]; omega, ⟨?_, ?_, ?_⟩, hbal⟩
      · rw [hnp]; exact List.Nodup.sublist (List.take_sublist _ _) hnd
      · intro x hx
        rw [hnp] at hx
        refine ⟨(hmem x (List.mem_of_mem_take hx)).1, (hmem x (List.mem_of_mem_take hx)).2, ?_⟩
        simp only [List.mem_append, List.mem_singleton, not_or]
        exact ⟨hncl x (Or.inl hx), c1 x hx⟩
      · intro x hx
        rw [hnp]
        rcases hcov x hx with hm | hm | hm
        · exact Or.inl hm
        · rw [c3, hdrop, List.mem_singleton] at hm
          exact Or.inr (by simp [hm])
        · exact Or.inr (by simp [hm])
  case «open» =>
    obtain ⟨hn, hidx, hlt, hsl, hbal⟩ := hri
    split at hs
    · -- injected failure: not a clean run
      split at hs <;> cases hs <;> (have := hc.1; simp [S.setRunner] at this)
    cases hs
    have hofresh : s.opened ∉ s.started := fun hm => Nat.lt_irrefl _ (hlso _ hm)
    refine { h with logs := ⟨hlc, hls, hlcs, fun id hid => Nat.lt_succ_of_lt (hlso id hid)⟩, lock := ?_ }
    simp only [S.setRunner, hr, List.set_cons_zero]
    unfold LockInv RunInv
    refine ⟨h1, hc2, ?_⟩
    simp only
    refine ⟨hn, hlt, hbal, Nat.succ_pos _, r.np, by simp, hidx, hsl.1, ?_, ?_, ?_, ?_⟩
    · intro id hid; simpa using hsl.2.1 id hid
    · intro id hid; simpa using hsl.2.2 id (by simpa using hid)
    · simpa using hofresh
    · simpa using fun hm => hofresh (hlcs _ hm)
  case go =>
    obtain ⟨hn, hlt, hbal, hop, l, hnp, hidx, hnd, hmem, hcov, hns, hncl⟩ := hri
    have hget : r.np[r.idx]? = some (s.opened - 1) := by
      rw [hnp, hidx, List.getElem?_append_right (Nat.le_refl _)]; simp
    rw [hget] at hs
    simp only at hs
    have hlogs : Logs s.opened (s.started ++ [s.opened - 1]) s.closed := by
      refine ⟨hlc, ?_, ?_, ?_⟩
      · rw [List.nodup_append]
        refine ⟨hls, by simp, ?_⟩
        intro a ha b hb
        simp only [List.mem_singleton] at hb
        subst hb
        intro hab; subst hab; exact hns ha
      · intro x hx; simp only [List.mem_append]; exact Or.inl (hlcs x hx)
      · intro x hx
        simp only [List.mem_append, List.mem_singleton] at hx
        rcases hx with hx | hx
        · exact hlso x hx
        · omega
    have hslice : SliceOK s.opened (s.started ++ [s.opened - 1]) s.closed r.np := by
      rw [hnp]
      refine ⟨?_, ?_, ?_⟩
      · rw [List.nodup_append]
        refine ⟨hnd, by simp, ?_⟩
        intro a ha b hb
        simp only [List.mem_singleton] at hb
        subst hb
        have := (hmem a ha).1
        omega
      · intro id hid
        simp only [List.mem_append, List.mem_singleton] at hid ⊢
        rcases hid with hid | hid
        · have := hmem id hid
          exact ⟨by omega, Or.inl this.2.1, this.2.2⟩
        · subst hid; exact ⟨by omega, Or.inr rfl, hncl⟩
      · intro id hid
        simp only [List.mem_append, List.mem_singleton]
        rcases Nat.lt_or_ge id (s.opened - 1) with hlt' | hge
        · rcases hcov id hlt' with hm | hm
          · exact Or.inl (Or.inl hm)
          · exact Or.inr hm
        · exact Or.inl (Or.inr (by omega))
    have hlen : r.np.length = r.idx + 1 := by rw [hnp, hidx]; simp
    split at hs
    · cases hs
      rename_i hlt2
      refine { h with logs := hlogs, lock := ?_ }
      simp only [S.setRunner, hr, List.set_cons_zero]
      unfold LockInv RunInv
      exact ⟨h1, hc2, hn, hlen.symm, hlt2, hslice, hbal⟩
    · cases hs
      rename_i hge
      refine { h with logs := hlogs, lock := ?_ }
      simp only [S.setRunner, hr, List.set_cons_zero]
      unfold LockInv RunInv
      exact ⟨h1, hc2, hn, by simp only; omega, hslice, hbal⟩
  case store =>
    obtain ⟨hn, hlen, hsl, hbal⟩ := hri
    cases hs
    refine { h with lock := ?_, sized := fun h2 => absurd h2 (by show ¬ s.status = 2; omega), ixs := hixs _, rts := hrts _ }
    simp only [S.setRunner, hr, List.set_cons_zero]
    unfold LockInv RunInv
    exact ⟨h1, hc2, by omega, hsl, hbal⟩
  case rebal1 =>
    obtain ⟨hlen, hsl, hbal⟩ := hri
    cases hb : s.bal with
    | none => simp [hb] at hbal
    | some b =>
      rw [hb] at hs
      cases hs
      refine { h with lock := ?_ }
      simp only [S.setRunner, hr, List.set_cons_zero]
      unfold LockInv RunInv
      exact ⟨h1, hc2, hlen, hsl, _, rfl, rfl⟩
  case rebal2 =>
    obtain ⟨hlen, hsl, b, hb, hbp⟩ := hri
    rw [hb] at hs
    cases hs
    refine { h with lock := ?_ }
    simp only [S.runReturn, hr, List.eraseIdx_cons_zero]
    unfold LockInv
    exact ⟨hsl, ⟨_, rfl, hbp, rfl⟩, Or.inr ⟨by omega, h1, hlen⟩⟩

/-! ### `Clean` only ever gets lost -/

theorem clean_mono (s s' : S) (a : Act) (hs : step s a = some s') : s.fails ≤ s'.fails ∧ s.wraps ≤ s'.wraps := by
  cases a <;> simp only [step, runStep] at hs <;> (repeat' split at hs) <;> (try cases hs) <;>
    (try simp [S.setRunner, S.runReturn, S.runPanic, setNumLoops, setLoadBalance]) <;> (try split) <;>
    (try simp) <;> (try split) <;> (try simp)

theorem clean_of_step (s s' : S) (a : Act) (hs : step s a = some s') (hc : Clean s') : Clean s := by
  have := clean_mono s s' a hs
  unfold Clean at *
  omega

theorem core_step (s s' : S) (a : Act) (h : Core s) (hs : step s a = some s') (hc : Clean s') : Core s' := by
  cases a with
  | spawn => exact core_spawn s s' h hs
  | load => exact core_load s s' h hs
  | cas => exact core_cas s s' h hs
  | run i f => exact core_run s s' i f h hs hc
  | cas2 => exact core_cas2 s s' h hs
  | balEnter r => exact core_balEnter s s' r h hs hc
  | balSize j => exact core_balSize s s' j h hs
  | balIdx j => exact core_balIdx s s' j h hs
  | setNumLoops n => exact core_setNumLoops s s' n h hs
  | setLB k => exact core_setLB s s' k h hs

theorem good_step (s s' : S) (a : Act) (h : Good s) (hs : step s a = some s') : Good s' :=
  fun hc => core_step s s' a (h (clean_of_step s s' a hs hc)) hs hc

theorem core_init (n : Nat) (hn : 1 ≤ n) : Core (init n) := by
  have hi : init n = { status := 0, numLoops := n, polls := [], bal := some (newBal c_RoundRobin []) } := by
    simp only [init, setLoadBalance, setNumLoops]
    rw [if_neg (by omega)]
    simp
  rw [hi]
  refine { nl := hn, st := by simp, logs := by simp [Logs], np := rfl, lock := ?_, sized := by simp,
           inbal := by simp, tks := by simp, ixs := by simp, rts := by simp }
  unfold LockInv
  exact ⟨by simp [SliceOK], ⟨_, rfl, rfl, rfl⟩, Or.inl ⟨rfl, by simp⟩⟩

theorem good_reachable {n : Nat} (hn : 1 ≤ n) {s : S} (h : Reachable n s) : Good s := by
  induction h with
  | init => exact fun _ => core_init n hn
  | step a _ hs ih => exact good_step _ _ a ih hs

theorem core_reachable {n : Nat} (hn : 1 ≤ n) {s : S} (h : Reachable n s) (hc : Clean s) : Core s :=
  good_reachable hn h hc

end Netpoll.Manager
