import Netpoll.ManagerLemmas
/-!
The resource invariant of the poller-pool model (C18, and the poller side of C15): which pollers are open, who
holds them, which were closed.  `Res s` is proved for EVERY state reachable from `newManager n` – any `n`, any
number of injected `openPoll` failures, any round-robin counter (no `Clean`): `res_init`, `res_step`,
`res_reachable`.  It is what makes "no poller is ever left behind" true since the fix of F2 (the failing `Run`
hands the pollers it has opened to the deferred `Close`).

`Core` (ManagerLemmas) repeats the resource part under `Clean` together with the balancer facts; the two
invariants are proved separately so that this one carries no hypothesis.
-/
namespace Netpoll.Manager
open Netpoll.Gen

/-- what the goroutine inside `Run` knows about the pollers at each of its program counters -/
def RunRes (numLoops : Nat) (polls : List Nat) (opened : Nat) (started closed : List Nat) (r : Runner) : Prop :=
  match r.pc with
  | .load => SliceOK opened started closed polls
  | .close =>
    r.n = numLoops ∧ r.np = polls.take r.n ∧ r.n ≤ r.idx ∧ r.idx < polls.length ∧ polls.Nodup ∧
    (∀ id, id ∈ polls → id < opened ∧ id ∈ started) ∧
    (∀ id, id ∈ polls.take r.n ∨ id ∈ polls.drop r.idx → id ∉ closed) ∧
    (∀ id, id < opened → id ∈ polls.take r.n ∨ id ∈ polls.drop r.idx ∨ id ∈ closed)
  | .open => r.n = numLoops ∧ r.idx = r.np.length ∧ r.idx < r.n ∧ SliceOK opened started closed r.np
  | .go =>
    r.n = numLoops ∧ r.idx < r.n ∧ 0 < opened ∧
    ∃ l, r.np = l ++ [opened - 1] ∧ r.idx = l.length ∧ l.Nodup ∧
      (∀ id, id ∈ l → id < opened - 1 ∧ id ∈ started ∧ id ∉ closed) ∧
      (∀ id, id < opened - 1 → id ∈ l ∨ id ∈ closed) ∧
      (opened - 1) ∉ started ∧ (opened - 1) ∉ closed
  | .store => r.n = numLoops ∧ r.np.length = r.n ∧ SliceOK opened started closed r.np
  | .rebal1 => polls.length = numLoops ∧ SliceOK opened started closed polls
  | .rebal2 => polls.length = numLoops ∧ SliceOK opened started closed polls
  -- the error path: `m.polls` holds the old pollers and the ones opened by this call; `Close` is at index `idx`
  | .eclose =>
    r.idx < polls.length ∧ polls.Nodup ∧ (∀ id, id ∈ polls → id < opened ∧ id ∈ started) ∧
    (∀ id, id ∈ polls.drop r.idx → id ∉ closed) ∧
    (∀ id, id < opened → id ∈ polls.drop r.idx ∨ id ∈ closed)
  | .eclear => ∀ id, id < opened → id ∈ closed

/-- who holds the initialisation lock, resources only -/
def LockRes (status numLoops : Nat) (polls : List Nat) (cCas2 : Nat) (runners : List Runner)
    (opened : Nat) (started closed : List Nat) : Prop :=
  match runners with
  | [] =>
    SliceOK opened started closed polls ∧
    ((cCas2 = 0 ∧ (status = 2 → polls.length = numLoops)) ∨ (cCas2 = 1 ∧ status = 1 ∧ polls.length = numLoops))
  | [r] => status = 1 ∧ cCas2 = 0 ∧ RunRes numLoops polls opened started closed r
  | _ :: _ :: _ => False

structure Res (s : S) : Prop where
  logs : Logs s.opened s.started s.closed
  lock : LockRes s.status s.numLoops s.polls s.cCas2 s.runners s.opened s.started s.closed

set_option linter.unusedSimpArgs false
set_option linter.unusedVariables false

theorem res_cas (s s' : S) (h : Res s) (hs : step s .cas = some s') : Res s' := by
  simp only [step] at hs
  split at hs
  · cases hs
  split at hs
  · cases hs
    rename_i h1 h2
    simp at h2
    have hl := h.lock
    unfold LockRes at hl
    split at hl
    · rename_i hr
      obtain ⟨hsl, hd⟩ := hl
      rcases hd with hd | hd
      · refine { h with lock := ?_ }
        simp only [hr, List.nil_append, LockRes, RunRes, cI]
        exact ⟨trivial, hd.1, hsl⟩
      · omega
    · omega
    · exact hl.elim
  · cases hs
    exact { h with }

theorem res_cas2 (s s' : S) (h : Res s) (hs : step s .cas2 = some s') : Res s' := by
  simp only [step] at hs
  split at hs
  · cases hs
  rename_i h1
  have hl := h.lock
  unfold LockRes at hl
  split at hl
  · rename_i hr
    obtain ⟨hsl, hd⟩ := hl
    rcases hd with hd | hd
    · exact absurd hd.1 h1
    · split at hs
      · cases hs
        refine { h with lock := ?_ }
        simp only [hr, LockRes, cD]
        exact ⟨hsl, Or.inl ⟨by omega, fun _ => hd.2.2⟩⟩
      · rename_i h2; simp at h2; exact absurd hd.2.1 h2
  · exact absurd hl.2.1 h1
  · exact hl.elim

theorem res_setNumLoops (s s' : S) (n : Nat) (h : Res s) (hs : step s (.setNumLoops n) = some s') : Res s' := by
  simp only [step] at hs
  split at hs
  · rename_i h0
    obtain ⟨_, _, hr, hc2, _, _, _⟩ := inflight0 s h0
    cases hs
    simp only [setNumLoops]
    split
    · exact { h with }
    · have hl := h.lock
      rw [hr] at hl
      unfold LockRes at hl
      refine { h with lock := ?_ }
      simp only [hr]; unfold LockRes
      exact ⟨hl.1, Or.inl ⟨hc2, by simp⟩⟩
  · cases hs

theorem res_setLB (s s' : S) (k : Nat) (h : Res s) (hs : step s (.setLB k) = some s') : Res s' := by
  simp only [step] at hs
  split at hs
  · cases hs
    simp only [setLoadBalance]
    split
    · split
      · exact { h with }
      · exact { h with }
    · exact { h with }
  · cases hs

theorem res_run (s s' : S) (i : Nat) (fail : Bool) (h : Res s) (hs : step s (.run i fail) = some s') : Res s' := by
  simp only [step, runStep] at hs
  have hl := h.lock
  rcases hr : s.runners with _ | ⟨r, _ | ⟨r2, rest⟩⟩
  · simp [hr] at hs
  rotate_left
  · rw [hr] at hl; unfold LockRes at hl; exact hl.elim
  rw [hr] at hl
  unfold LockRes at hl
  obtain ⟨h1, hc2, hri⟩ := hl
  rw [hr] at hs
  cases i with
  | succ i => simp at hs
  | zero =>
  simp only [List.getElem?_cons_zero] at hs
  unfold RunRes at hri
  obtain ⟨hlc, hls, hlcs, hlso⟩ := h.logs
  have hst12 : s.status = 2 → False := fun h2 => by omega
  cases hpc : r.pc <;> simp only [hpc] at hs hri
  case load =>
    have hsl := hri
    split at hs
    · cases hs
      rename_i heq
      refine { h with lock := ?_ }
      simp only [S.runReturn, hr, List.eraseIdx_cons_zero]
      unfold LockRes
      exact ⟨hsl, Or.inr ⟨by omega, h1, heq.symm⟩⟩
    split at hs
    · cases hs
      rename_i hne hlt
      refine { h with lock := ?_ }
      simp only [S.setRunner, hr, List.set_cons_zero]
      unfold LockRes RunRes
      refine ⟨h1, hc2, rfl, rfl, Nat.le_refl _, hlt, hsl.1, fun id hid => ⟨(hsl.2.1 id hid).1, (hsl.2.1 id hid).2.1⟩, ?_, ?_⟩
      · intro id hid
        rcases hid with hid | hid
        · exact (hsl.2.1 id (List.mem_of_mem_take hid)).2.2
        · exact (hsl.2.1 id (List.mem_of_mem_drop hid)).2.2
      · intro id hid
        rcases hsl.2.2 id hid with hm | hm
        · rw [← List.take_append_drop s.numLoops s.polls, List.mem_append] at hm
          rcases hm with hm | hm
          · exact Or.inl hm
          · exact Or.inr (Or.inl hm)
        · exact Or.inr (Or.inr hm)
    · cases hs
      rename_i hne hlt
      refine { h with lock := ?_ }
      simp only [S.setRunner, hr, List.set_cons_zero]
      unfold LockRes RunRes
      exact ⟨h1, hc2, rfl, rfl, by simp only; omega, hsl⟩
  case close =>
    obtain ⟨hn, hnp, hni, hil, hnd, hmem, hncl, hcov⟩ := hri
    split at hs
    · rename_i hnone
      rw [List.getElem?_eq_none_iff] at hnone
      omega
    rename_i id hid
    obtain ⟨c1, c2, c3⟩ := close_step s.polls r.idx r.n id hni hid hnd
    have hidm : id ∈ s.polls := List.mem_of_getElem? hid
    have hidnc : id ∉ s.closed := hncl id (Or.inr (by rw [c3]; simp))
    have hlogs : Logs s.opened s.started (s.closed ++ [id]) := by
      refine ⟨?_, hls, ?_, hlso⟩
      · rw [List.nodup_append]
        refine ⟨hlc, by simp, ?_⟩
        intro a ha b hb
        simp only [List.mem_singleton] at hb
        subst hb
        intro hab; subst hab; exact hidnc ha
      · intro x hx
        simp only [List.mem_append, List.mem_singleton] at hx
        rcases hx with hx | hx
        · exact hlcs x hx
        · subst hx; exact (hmem _ hidm).2
    split at hs
    · cases hs
      rename_i hlt
      refine { logs := hlogs, lock := ?_ }
      simp only [S.setRunner, hr, List.set_cons_zero]
      unfold LockRes RunRes
      refine ⟨h1, hc2, ?_⟩
      refine ⟨hn, hnp, Nat.le_succ_of_le hni, hlt, hnd, hmem, ?_, ?_⟩
      · intro x hx
        simp only [List.mem_append, List.mem_singleton, not_or]
        rcases hx with hx | hx
        · exact ⟨hncl x (Or.inl hx), c1 x hx⟩
        · exact ⟨hncl x (Or.inr (by rw [c3]; exact List.mem_cons_of_mem _ hx)), c2 x hx⟩
      · intro x hx
        rcases hcov x hx with hm | hm | hm
        · exact Or.inl hm
        · rw [c3, List.mem_cons] at hm
          rcases hm with hm | hm
          · exact Or.inr (Or.inr (by simp [hm]))
          · exact Or.inr (Or.inl hm)
        · exact Or.inr (Or.inr (by simp [hm]))
    · cases hs
      rename_i hge
      have hdrop : s.polls.drop (r.idx + 1) = [] := List.drop_eq_nil_of_le (by omega)
      refine { logs := hlogs, lock := ?_ }
      simp only [S.setRunner, hr, List.set_cons_zero]
      unfold LockRes RunRes
      refine ⟨h1, hc2, ?_⟩
      simp only
      refine ⟨hn, by rw [hnp, List.length_take]; omega, ⟨?_, ?_, ?_⟩⟩
      · rw [hnp]; exact List.Nodup.sublist (List.take_sublist _ _) hnd
      · intro x hx
        rw [hnp] at hx
        refine ⟨(hmem x (List.mem_of_mem_take hx)).1, (hmem x (List.mem_of_mem_take hx)).2, ?_⟩
        simp only [List.mem_append, List.mem_singleton, not_or]
        exact ⟨hncl x (Or.inl hx), c1 x hx⟩
      · intro x hx
        rw [hnp]
        rcases hcov x hx with hm | hm | hm
        · exact Or.inl hm
        · rw [c3, hdrop, List.mem_singleton] at hm
          exact Or.inr (by simp [hm])
        · exact Or.inr (by simp [hm])
  case «open» =>
    obtain ⟨hn, hidx, hlt, hsl⟩ := hri
    split at hs
    · -- injected failure: `m.polls = polls[:idx]`, then the deferred Close
      split at hs
      · cases hs
        rename_i hlen0
        have hnil : r.np = [] := List.eq_nil_of_length_eq_zero hlen0
        refine { h with lock := ?_ }
        simp only [S.setRunner, hr, List.set_cons_zero]
        unfold LockRes RunRes
        refine ⟨h1, hc2, ?_⟩
        simp only
        intro id hid
        rcases hsl.2.2 id hid with hm | hm
        · rw [hnil] at hm; simp at hm
        · exact hm
      · cases hs
        rename_i hlenne
        refine { h with lock := ?_ }
        simp only [S.setRunner, hr, List.set_cons_zero]
        unfold LockRes RunRes
        refine ⟨h1, hc2, ?_⟩
        simp only
        refine ⟨by omega, hsl.1, fun id hid => ⟨(hsl.2.1 id hid).1, (hsl.2.1 id hid).2.1⟩, ?_, ?_⟩
        · intro id hid
          rw [List.drop_zero] at hid
          exact (hsl.2.1 id hid).2.2
        · intro id hid
          rw [List.drop_zero]
          exact hsl.2.2 id hid
    cases hs
    have hofresh : s.opened ∉ s.started := fun hm => Nat.lt_irrefl _ (hlso _ hm)
    refine { logs := ⟨hlc, hls, hlcs, fun id hid => Nat.lt_succ_of_lt (hlso id hid)⟩, lock := ?_ }
    simp only [S.setRunner, hr, List.set_cons_zero]
    unfold LockRes RunRes
    refine ⟨h1, hc2, ?_⟩
    simp only
    refine ⟨hn, hlt, Nat.succ_pos _, r.np, by simp, hidx, hsl.1, ?_, ?_, ?_, ?_⟩
    · intro id hid; simpa using hsl.2.1 id hid
    · intro id hid; simpa using hsl.2.2 id (by simpa using hid)
    · simpa using hofresh
    · simpa using fun hm => hofresh (hlcs _ hm)
  case go =>
    obtain ⟨hn, hlt, hop, l, hnp, hidx, hnd, hmem, hcov, hns, hncl⟩ := hri
    have hget : r.np[r.idx]? = some (s.opened - 1) := by
      rw [hnp, hidx, List.getElem?_append_right (Nat.le_refl _)]; simp
    rw [hget] at hs
    simp only at hs
    have hlogs : Logs s.opened (s.started ++ [s.opened - 1]) s.closed := by
      refine ⟨hlc, ?_, ?_, ?_⟩
      · rw [List.nodup_append]
        refine ⟨hls, by simp, ?_⟩
        intro a ha b hb
        simp only [List.mem_singleton] at hb
        subst hb
        intro hab; subst hab; exact hns ha
      · intro x hx; simp only [List.mem_append]; exact Or.inl (hlcs x hx)
      · intro x hx
        simp only [List.mem_append, List.mem_singleton] at hx
        rcases hx with hx | hx
        · exact hlso x hx
        · omega
    have hslice : SliceOK s.opened (s.started ++ [s.opened - 1]) s.closed r.np := by
      rw [hnp]
      refine ⟨?_, ?_, ?_⟩
      · rw [List.nodup_append]
        refine ⟨hnd, by simp, ?_⟩
        intro a ha b hb
        simp only [List.mem_singleton] at hb
        subst hb
        have := (hmem a ha).1
        omega
      · intro id hid
        simp only [List.mem_append, List.mem_singleton] at hid ⊢
        rcases hid with hid | hid
        · have := hmem id hid
          exact ⟨by omega, Or.inl this.2.1, this.2.2⟩
        · subst hid; exact ⟨by omega, Or.inr rfl, hncl⟩
      · intro id hid
        simp only [List.mem_append, List.mem_singleton]
        rcases Nat.lt_or_ge id (s.opened - 1) with hlt' | hge
        · rcases hcov id hlt' with hm | hm
          · exact Or.inl (Or.inl hm)
          · exact Or.inr hm
        · exact Or.inl (Or.inr (by omega))
    have hlen : r.np.length = r.idx + 1 := by rw [hnp, hidx]; simp
    split at hs
    · cases hs
      rename_i hlt2
      refine { logs := hlogs, lock := ?_ }
      simp only [S.setRunner, hr, List.set_cons_zero]
      unfold LockRes RunRes
      exact ⟨h1, hc2, hn, hlen.symm, hlt2, hslice⟩
    · cases hs
      rename_i hge
      refine { logs := hlogs, lock := ?_ }
      simp only [S.setRunner, hr, List.set_cons_zero]
      unfold LockRes RunRes
      exact ⟨h1, hc2, hn, by simp only; omega, hslice⟩
  case store =>
    obtain ⟨hn, hlen, hsl⟩ := hri
    cases hs
    refine { h with lock := ?_ }
    simp only [S.setRunner, hr, List.set_cons_zero]
    unfold LockRes RunRes
    exact ⟨h1, hc2, by omega, hsl⟩
  case rebal1 =>
    obtain ⟨hlen, hsl⟩ := hri
    cases hb : s.bal with
    | none =>
      rw [hb] at hs
      cases hs
      refine { h with lock := ?_ }
      simp only [S.runPanic, hr, List.eraseIdx_cons_zero]
      unfold LockRes
      exact ⟨hsl, Or.inl ⟨hc2, fun h2 => (hst12 h2).elim⟩⟩
    | some b =>
      rw [hb] at hs
      cases hs
      refine { h with lock := ?_ }
      simp only [S.setRunner, hr, List.set_cons_zero]
      unfold LockRes RunRes
      exact ⟨h1, hc2, hlen, hsl⟩
  case rebal2 =>
    obtain ⟨hlen, hsl⟩ := hri
    cases hb : s.bal with
    | none =>
      rw [hb] at hs
      cases hs
      refine { h with lock := ?_ }
      simp only [S.runPanic, hr, List.eraseIdx_cons_zero]
      unfold LockRes
      exact ⟨hsl, Or.inl ⟨hc2, fun h2 => (hst12 h2).elim⟩⟩
    | some b =>
      rw [hb] at hs
      cases hs
      refine { h with lock := ?_ }
      simp only [S.runReturn, hr, List.eraseIdx_cons_zero]
      unfold LockRes
      exact ⟨hsl, Or.inr ⟨by omega, h1, hlen⟩⟩
  case eclose =>
    obtain ⟨hil, hnd, hmem, hncl, hcov⟩ := hri
    split at hs
    · rename_i hnone
      rw [List.getElem?_eq_none_iff] at hnone
      omega
    rename_i id hid
    obtain ⟨_, c2, c3⟩ := close_step s.polls r.idx 0 id (Nat.zero_le _) hid hnd
    have hidm : id ∈ s.polls := List.mem_of_getElem? hid
    have hidnc : id ∉ s.closed := hncl id (by rw [c3]; simp)
    have hlogs : Logs s.opened s.started (s.closed ++ [id]) := by
      refine ⟨?_, hls, ?_, hlso⟩
      · rw [List.nodup_append]
        refine ⟨hlc, by simp, ?_⟩
        intro a ha b hb
        simp only [List.mem_singleton] at hb
        subst hb
        intro hab; subst hab; exact hidnc ha
      · intro x hx
        simp only [List.mem_append, List.mem_singleton] at hx
        rcases hx with hx | hx
        · exact hlcs x hx
        · subst hx; exact (hmem _ hidm).2
    split at hs
    · cases hs
      rename_i hlt
      refine { logs := hlogs, lock := ?_ }
      simp only [S.setRunner, hr, List.set_cons_zero]
      unfold LockRes RunRes
      refine ⟨h1, hc2, ?_⟩
      simp only
      refine ⟨hlt, hnd, hmem, ?_, ?_⟩
      · intro x hx
        simp only [List.mem_append, List.mem_singleton, not_or]
        exact ⟨hncl x (by rw [c3]; exact List.mem_cons_of_mem _ hx), c2 x hx⟩
      · intro x hx
        rcases hcov x hx with hm | hm
        · rw [c3, List.mem_cons] at hm
          rcases hm with hm | hm
          · exact Or.inr (by simp [hm])
          · exact Or.inl hm
        · exact Or.inr (by simp [hm])
    · cases hs
      rename_i hge
      have hdrop : s.polls.drop (r.idx + 1) = [] := List.drop_eq_nil_of_le (by omega)
      refine { logs := hlogs, lock := ?_ }
      simp only [S.setRunner, hr, List.set_cons_zero]
      unfold LockRes RunRes
      refine ⟨h1, hc2, ?_⟩
      simp only
      intro x hx
      rcases hcov x hx with hm | hm
      · rw [c3, hdrop, List.mem_singleton] at hm
        simp [hm]
      · simp [hm]
  case eclear =>
    cases hs
    refine { h with lock := ?_ }
    simp only [S.runReturn, hr, List.eraseIdx_cons_zero]
    unfold LockRes
    exact ⟨⟨List.nodup_nil, by simp, fun id hid => Or.inr (hri id hid)⟩, Or.inr ⟨by omega, h1, rfl⟩⟩

/-- the steps that touch neither the pollers nor the lock -/
theorem res_other (s s' : S) (a : Act) (h : Res s) (hs : step s a = some s')
    (ha : a = .spawn ∨ a = .load ∨ (∃ r, a = .balEnter r) ∨ (∃ j, a = .balSize j) ∨ (∃ j, a = .balIdx j)) : Res s' := by
  rcases ha with rfl | rfl | ⟨r, rfl⟩ | ⟨j, rfl⟩ | ⟨j, rfl⟩ <;> simp only [step] at hs <;>
    (repeat' split at hs) <;> (try cases hs) <;> exact { h with }

theorem res_step (s s' : S) (a : Act) (h : Res s) (hs : step s a = some s') : Res s' := by
  cases a with
  | spawn => exact res_other s s' _ h hs (Or.inl rfl)
  | load => exact res_other s s' _ h hs (Or.inr (Or.inl rfl))
  | cas => exact res_cas s s' h hs
  | run i f => exact res_run s s' i f h hs
  | cas2 => exact res_cas2 s s' h hs
  | balEnter r => exact res_other s s' _ h hs (Or.inr (Or.inr (Or.inl ⟨r, rfl⟩)))
  | balSize j => exact res_other s s' _ h hs (Or.inr (Or.inr (Or.inr (Or.inl ⟨j, rfl⟩))))
  | balIdx j => exact res_other s s' _ h hs (Or.inr (Or.inr (Or.inr (Or.inr ⟨j, rfl⟩))))
  | setNumLoops n => exact res_setNumLoops s s' n h hs
  | setLB k => exact res_setLB s s' k h hs

theorem res_init (n : Nat) : Res (init n) := by
  simp only [init, setLoadBalance, setNumLoops]
  split <;> refine ⟨by simp [Logs], ?_⟩ <;> simp [LockRes, SliceOK]

theorem res_reachable {n : Nat} {s : S} (h : Reachable n s) : Res s := by
  induction h with
  | init => exact res_init n
  | step a _ hs ih => exact res_step _ _ a ih hs

/-- with nobody inside `Run`, the slice is the complete set of open pollers -/
theorem res_quiet {s : S} (h : Res s) (hr : s.runners = []) :
    SliceOK s.opened s.started s.closed s.polls ∧ (s.status = 2 → s.polls.length = s.numLoops) := by
  have hl := h.lock
  rw [hr] at hl
  unfold LockRes at hl
  refine ⟨hl.1, fun h2 => ?_⟩
  rcases hl.2 with hd | hd
  · exact hd.2 h2
  · omega

/-- status = initialised means nobody is inside `Run` -/
theorem res_status2 {s : S} (h : Res s) (h2 : s.status = 2) : s.runners = [] := by
  have hl := h.lock
  unfold LockRes at hl
  split at hl
  · assumption
  · omega
  · exact hl.elim

end Netpoll.Manager
