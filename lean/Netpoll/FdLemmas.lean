import Netpoll.Fd
/-!
# Lemmas for the descriptor ledger (C15)

`wp`: a weakest-precondition calculus for lifecycle programs against the set of numbers the instance owns
(`Own`).  `Safe`-style judgements per Go function, then per lifecycle; the global composition theorem is in
the second half.
-/
namespace Netpoll.Fd
open M
set_option linter.unusedSimpArgs false
set_option linter.unusedVariables false

/-- numbers owned by one instance ↦ object tag -/
abbrev Own := Fd → Option Nat

def Own.set (o : Own) (fd : Fd) (v : Option Nat) : Own := fun x => if x = fd then v else o x
def Own.empty : Own := fun _ => none

/-- Weakest precondition of a lifecycle program.  `opn`: for EVERY number the kernel may hand out (any number
> 2 the instance does not hold – in particular one it closed earlier and still remembers in some variable);
`cls`/`rel`: the number must be owned, as that object, at that moment; `choose`: for every outcome not
excluded by the assumptions `A`. -/
def wp (A : Br → Option Bool) : M α → (α → Own → Prop) → Own → Prop
  | .ret a, Q, o => Q a o
  | .opn tag k, Q, o => ∀ n, 2 < n → o n = none → wp A (k n) Q (o.set n (some tag))
  | .adopt fd tag k, Q, o => 2 < fd → o fd = none → wp A k Q (o.set fd (some tag))
  | .rel fd tag k, Q, o => o fd = some tag ∧ wp A k Q (o.set fd none)
  | .cls fd tag _ k, Q, o => o fd = some tag ∧ wp A k Q (o.set fd none)
  | .at _ k, Q, o => wp A k Q o
  | .choose l k, Q, o => ∀ b, (A l = none ∨ A l = some b) → wp A (k b) Q o

@[simp] theorem bind_def (m : M α) (f : α → M β) : (m >>= f) = M.bind m f := rfl
@[simp] theorem pure_def (a : α) : (pure a : M α) = .ret a := rfl

theorem wp_bind (A) (m : M α) (f : α → M β) (Q : β → Own → Prop) (o : Own) :
    wp A (M.bind m f) Q o ↔ wp A m (fun a o' => wp A (f a) Q o') o := by
  induction m generalizing o with
  | ret a => simp [M.bind, wp]
  | opn t k ih =>
    simp only [M.bind, wp]
    exact ⟨fun h n h2 hn => (ih n _).1 (h n h2 hn), fun h n h2 hn => (ih n _).2 (h n h2 hn)⟩
  | adopt fd t k ih =>
    simp only [M.bind, wp]
    exact ⟨fun h h2 hn => (ih _).1 (h h2 hn), fun h h2 hn => (ih _).2 (h h2 hn)⟩
  | rel fd t k ih => simp only [M.bind, wp, ih]
  | cls fd t s k ih => simp only [M.bind, wp, ih]
  | «at» s k ih => simp only [M.bind, wp, ih]
  | choose l k ih =>
    simp only [M.bind, wp]
    exact ⟨fun h b hb => (ih b _).1 (h b hb), fun h b hb => (ih b _).2 (h b hb)⟩

theorem wp_mono (A) (m : M α) (Q Q' : α → Own → Prop) (o : Own) (h : ∀ a o', Q a o' → Q' a o') :
    wp A m Q o → wp A m Q' o := by
  induction m generalizing o with
  | ret a => exact h a o
  | opn t k ih => intro w n h2 hn; exact ih n _ (w n h2 hn)
  | adopt fd t k ih => intro w h2 hn; exact ih _ (w h2 hn)
  | rel fd t k ih => intro w; exact ⟨w.1, ih _ w.2⟩
  | cls fd t s k ih => intro w; exact ⟨w.1, ih _ w.2⟩
  | «at» s k ih => intro w; exact ih _ w
  | choose l k ih => intro w b hb; exact ih b _ (w b hb)

/-! ### `Own` algebra -/

@[simp] theorem Own.set_same (o : Own) (fd v) : (o.set fd v) fd = v := by simp [Own.set]
theorem Own.set_other (o : Own) (fd v x) (h : x ≠ fd) : (o.set fd v) x = o x := by simp [Own.set, h]
theorem Own.set_cancel (o : Own) (fd v) (h : o fd = none) : (o.set fd v).set fd none = o := by
  funext x; by_cases hx : x = fd <;> simp [Own.set, hx, h]
@[simp] theorem Own.empty_apply (x : Fd) : Own.empty x = none := rfl

/-! ### specifications of the Go-function models (continuation-passing form) -/

theorem wp_ask (A) (l : Br) (Q : Bool → Own → Prop) (o : Own) (h : ∀ b, (A l = none ∨ A l = some b) → Q b o) :
    wp A (ask l) Q o := by
  simpa [ask, wp] using h

/-- `netFD.Close`: the first call closes (or hands over) the number – which must then be owned –, later calls
do nothing. -/
theorem NetFD.close_wp (A) (c : NetFD) (o : Own) (Q : NetFD → Own → Prop)
    (h0 : c.closed = 0 → o c.fd = some c.tag ∧ 2 < c.fd ∧ Q { c with closed := 1 } (o.set c.fd none))
    (h1 : c.closed ≠ 0 → Q { c with closed := c.closed + 1 } o) : wp A c.close Q o := by
  unfold NetFD.close
  by_cases hc : c.closed = 0
  · obtain ⟨ho, h2, hq⟩ := h0 hc
    cases hd : c.detaching <;> simp [hc, hd, h2, wp, M.close, M.release, M.bind, ho] <;> simpa [hc, hd] using hq
  · have : (c.closed + 1 != 1) = true := by simp [hc]
    simp only [this, if_true, pure_def, wp]
    exact h1 hc

theorem sysSocket_wp (A) (tag : Nat) (o : Own) (Q : Option Fd → Own → Prop)
    (hnone : Q none o) (hsome : ∀ s, 2 < s → o s = none → Q (some s) (o.set s (some tag))) :
    wp A (sysSocket tag) Q o := by
  unfold sysSocket
  simp only [bind_def, pure_def, ask, open_, M.close, M.bind, wp]
  intro b _; cases b
  · simpa [wp] using hnone
  · simp only [Bool.not_true, Bool.false_eq_true, if_false, wp]
    intro s h2 hs b _; cases b
    · simp [wp, M.bind, Own.set_cancel _ _ _ hs]; exact hnone
    · simpa [wp] using hsome s h2 hs

theorem netFDdial_wp (A) (o : Own) (Q : Bool → Own → Prop) (h : ∀ b, Q b o) : wp A netFDdial Q o := by
  unfold netFDdial
  simp only [bind_def, pure_def, ask, M.bind, wp]
  intro b1 _; cases b1 <;> simp only [Bool.not_false, Bool.not_true, Bool.false_eq_true, if_true, if_false, wp, M.bind]
  · exact h _
  · intro b2 _; cases b2 <;> simp only [Bool.not_false, Bool.not_true, Bool.false_eq_true, if_true, if_false, wp, M.bind]
    all_goals (repeat (first | exact h _ | (intro b _; cases b <;> simp only [Bool.not_false, Bool.not_true, Bool.false_eq_true, if_true, if_false, wp, M.bind])))

theorem socket_wp (A) (tag : Nat) (o : Own) (Q : Option NetFD → Own → Prop)
    (hnone : Q none o)
    (hsome : ∀ s, 2 < s → o s = none → Q (some { fd := s, tag := tag }) (o.set s (some tag))) :
    wp A (socket tag) Q o := by
  unfold socket
  simp only [bind_def, wp_bind]
  apply sysSocket_wp
  · simpa [wp] using hnone
  · intro s h2 hs
    simp only [wp_bind]
    apply wp_ask; intro b _; cases b
    · simp [wp, M.close, M.bind, Own.set_cancel _ _ _ hs]; exact hnone
    · simp only [Bool.not_true, Bool.false_eq_true, if_false, wp_bind]
      apply netFDdial_wp; intro b; cases b
      · simp only [Bool.not_false, if_true, wp_bind, visit, wp]
        apply NetFD.close_wp
        · intro _; simp [wp, Own.set_cancel _ _ _ hs, h2]; exact hnone
        · intro h; simp at h
      · simpa [wp] using hsome s h2 hs

/-- `dialTCP`'s retry loop: whatever it returns, at most the returned descriptor is held. -/
theorem dialTCPretry_wp (A) (left : Nat) (o : Own) (Q : Option NetFD → Own → Prop)
    (hnone : Q none o)
    (hsome : ∀ s t, 2 < s → o s = none → Q (some { fd := s, tag := t }) (o.set s (some t))) :
    ∀ tag, wp A (dialTCPretry left tag none) Q o ∧
      ∀ s t, 2 < s → o s = none → wp A (dialTCPretry left tag (some { fd := s, tag := t })) Q (o.set s (some t)) := by
  induction left with
  | zero => intro tag; exact ⟨by simpa [dialTCPretry, wp] using hnone, fun s t h2 hs => by simpa [dialTCPretry, wp] using hsome s t h2 hs⟩
  | succ n ih =>
    intro tag
    have step : wp A (socket tag) (fun r o' => wp A (dialTCPretry n (tag + 1) r) Q o') o := by
      apply socket_wp
      · exact (ih (tag + 1)).1
      · intro s h2 hs; exact (ih (tag + 1)).2 s tag h2 hs
    constructor
    · simp only [dialTCPretry, bind_def, wp_bind]
      apply wp_ask; intro b _; cases b
      · simpa [wp] using hnone
      · simpa [wp_bind] using step
    · intro s t h2 hs
      simp only [dialTCPretry, bind_def, wp_bind]
      apply wp_ask; intro b _; cases b
      · simpa [wp] using hsome s t h2 hs
      · simp only [if_true, wp_bind, visit, wp]
        apply NetFD.close_wp
        · intro _; simp [Own.set_cancel _ _ _ hs, h2]; simpa [wp_bind] using step
        · intro h; simp at h

theorem dialTCP_wp (A) (o : Own) (Q : Option NetFD → Own → Prop)
    (hnone : Q none o)
    (hsome : ∀ s t, 2 < s → o s = none → Q (some { fd := s, tag := t }) (o.set s (some t))) :
    wp A dialTCP Q o := by
  unfold dialTCP
  simp only [bind_def, wp_bind]
  apply socket_wp
  · exact ((dialTCPretry_wp A 2 o Q hnone hsome) 1).1
  · intro s h2 hs; exact ((dialTCPretry_wp A 2 o Q hnone hsome) 1).2 s 0 h2 hs

theorem dialUnix_wp (A) (o : Own) (Q : Option NetFD → Own → Prop)
    (hnone : Q none o)
    (hsome : ∀ s t, 2 < s → o s = none → Q (some { fd := s, tag := t }) (o.set s (some t))) :
    wp A dialUnix Q o := by
  unfold dialUnix
  simp only [bind_def, wp_bind]
  apply wp_ask; intro b _; cases b
  · simpa [wp] using hnone
  · simp only [Bool.not_true, Bool.false_eq_true, if_false]
    exact socket_wp A 0 o Q hnone (fun s h2 hs => hsome s 0 h2 hs)

/-! ### connection -/

/-- what a connection's `netFD` copy and the ledger have to do with each other -/
structure ConnInv (c : NetFD) (o : Own) (ran : Bool) : Prop where
  fd_gt : 2 < c.fd
  open_ : c.closed = 0 → o = Own.empty.set c.fd (some c.tag)
  closed_ : c.closed ≠ 0 → o = Own.empty
  ran_ : ran = true → c.closed ≠ 0

theorem finalizer_wp (A) (c : NetFD) (o : Own) (ran : Bool) (inv : ConnInv c o ran) (Q : NetFD → Own → Prop)
    (h : ∀ c' o', ConnInv c' o' true → c'.detaching = c.detaching → Q c' o') : wp A (finalizer c) Q o := by
  unfold finalizer
  simp only [bind_def, visit, M.bind, wp]
  apply NetFD.close_wp
  · intro hc
    refine ⟨by simp [inv.open_ hc], inv.fd_gt, ?_⟩
    apply h
    · exact ⟨inv.fd_gt, by simp, by intro _; rw [inv.open_ hc]; exact Own.set_cancel _ _ _ rfl, by simp⟩
    · rfl
  · intro hc
    apply h
    · exact ⟨inv.fd_gt, by simp, by intro _; exact inv.closed_ hc, by simp⟩
    · rfl

theorem connEnd_wp (A) (c : NetFD) (o : Own) (ran : Bool) (inv : ConnInv c o ran) :
    wp A (connEnd ran c) (fun _ o' => o' = Own.empty) o := by
  unfold connEnd
  cases ran
  · simp only [Bool.false_eq_true, if_false, bind_def, wp_bind]
    apply wp_ask; intro b _
    have fin : wp A (finalizer c) (fun _ o' => o' = Own.empty) o := by
      apply finalizer_wp A c o false inv
      intro c' o' inv' _
      exact inv'.closed_ (inv'.ran_ rfl)
    cases b
    · simpa [wp, wp_bind] using fin
    · simpa [wp, wp_bind, visit, M.bind] using fin
  · simp only [if_true, pure_def, wp]
    exact inv.closed_ (inv.ran_ rfl)

theorem connLoop_wp (A) (fuel : Nat) : ∀ (c : NetFD) (o : Own) (ran : Bool), ConnInv c o ran →
    wp A (connLoop fuel ran c) (fun _ o' => o' = Own.empty) o := by
  induction fuel with
  | zero => intro c o ran inv; simpa [connLoop] using connEnd_wp A c o ran inv
  | succ n ih =>
    intro c o ran inv
    simp only [connLoop, bind_def, wp_bind]
    apply wp_ask; intro b _; cases b
    · simpa using connEnd_wp A c o ran inv
    · simp only [Bool.not_true, Bool.false_eq_true, if_false, wp_bind]
      apply wp_ask; intro b _; cases b
      · simp only [Bool.false_eq_true, if_false, wp_bind]
        apply wp_ask; intro b _
        have fin : wp A (finalizer c) (fun c' o' => wp A (connLoop n true c') (fun _ o' => o' = Own.empty) o') o :=
          finalizer_wp A c o ran inv _ (fun c' o' inv' _ => ih c' o' true inv')
        cases b
        · simpa [wp, wp_bind] using fin
        · simpa [wp, wp_bind, visit, M.bind] using fin
      · simp only [if_true]
        exact ih _ o ran ⟨inv.fd_gt, inv.open_, inv.closed_, inv.ran_⟩

theorem connInit_wp (A) (fuel : Nat) (s t : Nat) (h2 : 2 < s) :
    wp A (connInit fuel { fd := s, tag := t }) (fun _ o' => o' = Own.empty) (Own.empty.set s (some t)) := by
  have inv : ConnInv { fd := s, tag := t } (Own.empty.set s (some t)) false :=
    ⟨h2, fun _ => rfl, fun h => absurd rfl h, fun h => by simp at h⟩
  unfold connInit
  simp only [bind_def, wp_bind]
  have fin := finalizer_wp A _ _ false inv _ (fun c' o' inv' _ => connLoop_wp A fuel c' o' true inv')
  apply wp_ask; intro b _; cases b
  · simp only [Bool.false_eq_true, if_false, wp_bind]
    apply wp_ask; intro b _; cases b
    · simpa [wp_bind] using fin
    · simpa using connLoop_wp A fuel _ _ false inv
  · simpa [wp_bind] using fin

theorem lifeDialTCP_safe (A) (fuel : Nat) : wp A (lifeDialTCP fuel) (fun _ o => o = Own.empty) Own.empty := by
  unfold lifeDialTCP
  simp only [bind_def, wp_bind]
  apply dialTCP_wp
  · simp [wp]
  · intro s t h2 _; simpa using connInit_wp A fuel s t h2

theorem lifeDialUnix_safe (A) (fuel : Nat) : wp A (lifeDialUnix fuel) (fun _ o => o = Own.empty) Own.empty := by
  unfold lifeDialUnix
  simp only [bind_def, wp_bind]
  apply dialUnix_wp
  · simp [wp]
  · intro s t h2 _; simpa using connInit_wp A fuel s t h2

theorem lifeAccepted_safe (A) (fuel : Nat) : wp A (lifeAccepted fuel) (fun _ o => o = Own.empty) Own.empty := by
  unfold lifeAccepted
  simp only [bind_def, wp_bind]
  apply wp_ask; intro b _; cases b
  · simp [wp]
  · simp only [Bool.not_true, Bool.false_eq_true, if_false, wp_bind, open_, wp]
    intro s h2 _; simpa using connInit_wp A fuel s 0 h2

theorem userCloseLoop_wp (A) (fuel : Nat) : ∀ (c : NetFD) (o : Own) (ran : Bool), ConnInv c o ran →
    wp A (userCloseLoop fuel ran c) (fun _ o' => o' = Own.empty) o := by
  have last : ∀ (c : NetFD) (o : Own) (ran : Bool), ConnInv c o ran →
      wp A (if ran then (pure () : M Unit) else do let _ ← c.close; pure ()) (fun _ o' => o' = Own.empty) o := by
    intro c o ran inv
    cases ran
    · simp only [Bool.false_eq_true, if_false, bind_def, wp_bind]
      apply NetFD.close_wp
      · intro hc
        refine ⟨by simp [inv.open_ hc], inv.fd_gt, ?_⟩
        simp only [pure_def, wp]
        rw [inv.open_ hc]; exact Own.set_cancel _ _ _ rfl
      · intro hc; simp only [pure_def, wp]; exact inv.closed_ hc
    · simp only [if_true, pure_def, wp]
      exact inv.closed_ (inv.ran_ rfl)
  induction fuel with
  | zero => intro c o ran inv; simpa [userCloseLoop] using last c o ran inv
  | succ n ih =>
    intro c o ran inv
    simp only [userCloseLoop, bind_def, wp_bind]
    apply wp_ask; intro b _; cases b
    · simpa using last c o ran inv
    · simp only [Bool.not_true, Bool.false_eq_true, if_false, wp_bind]
      apply NetFD.close_wp
      · intro hc
        refine ⟨by simp [inv.open_ hc], inv.fd_gt, ?_⟩
        apply ih
        exact ⟨inv.fd_gt, by simp, by intro _; rw [inv.open_ hc]; exact Own.set_cancel _ _ _ rfl, by simp⟩
      · intro hc
        apply ih
        exact ⟨inv.fd_gt, by simp, by intro _; exact inv.closed_ hc, by simp⟩

theorem lifeAcceptConn_safe (A) (fuel : Nat) : wp A (lifeAcceptConn fuel) (fun _ o => o = Own.empty) Own.empty := by
  unfold lifeAcceptConn
  simp only [bind_def, wp_bind]
  apply wp_ask; intro b _; cases b
  · simp [wp]
  · simp only [Bool.not_true, Bool.false_eq_true, if_false, wp_bind, open_, wp]
    intro s h2 _
    exact userCloseLoop_wp A fuel { fd := s, tag := 0 } _ false
      ⟨h2, fun _ => rfl, fun h => absurd rfl h, fun h => by simp at h⟩

theorem lifeFDConn_safe (A) (fd fuel : Nat) : wp A (lifeFDConn fd fuel) (fun _ o => o = Own.empty) Own.empty := by
  unfold lifeFDConn
  simp only [bind_def, wp_bind, adopt_, wp]
  intro h2 _; simpa using connInit_wp A fuel fd 0 h2

/-! ### listener -/

theorem OsFile.close_wp (A) (f : OsFile) (s : Site) (o : Own) (Q : OsFile → Own → Prop)
    (h0 : f.closed = false → o f.fd = some f.tag ∧ Q { f with closed := true } (o.set f.fd none))
    (h1 : f.closed = true → Q f o) : wp A (f.close s) Q o := by
  unfold OsFile.close
  cases hc : f.closed
  · obtain ⟨ho, hq⟩ := h0 hc
    simp [wp, M.close, M.bind, ho]; exact hq
  · simpa [wp] using h1 hc

/-- what a listener (duplicate `f`, wrapped listener `w`) owns -/
def lnOwn (f w : OsFile) : Own := fun x =>
  if x = f.fd ∧ f.closed = false then some f.tag
  else if x = w.fd ∧ w.closed = false then some w.tag else none

theorem lnOwn_closed (f w : OsFile) (hf : f.closed = true) (hw : w.closed = true) : lnOwn f w = Own.empty := by
  funext x; simp [lnOwn, hf, hw]

theorem Listener.close_wp (A) (fd : Fd) (f w : OsFile) (hne : f.fd ≠ w.fd) (Q : Listener → Own → Prop)
    (h : Q { fd := fd, file := some { f with closed := true }, ln := some { w with closed := true } } Own.empty) :
    wp A (Listener.close { fd := fd, file := some f, ln := some w }) Q (lnOwn f w) := by
  unfold Listener.close
  simp only [bind_def, wp_bind]
  have second : wp A (w.close Site.listener_Close_ln)
      (fun w' o' => Q { fd := fd, file := some { f with closed := true }, ln := some w' } o')
      (lnOwn { f with closed := true } w) := by
    apply OsFile.close_wp
    · intro hw
      refine ⟨by simp [lnOwn, hw], ?_⟩
      have : (lnOwn { f with closed := true } w).set w.fd none = Own.empty := by
        funext x; by_cases hx : x = w.fd <;> simp [Own.set, lnOwn, hx, hw]
      rw [this]; exact h
    · intro hw
      rw [lnOwn_closed _ w rfl hw]
      have e2 : w = { w with closed := true } := by cases w; simp_all
      rw [e2]; exact h
  apply OsFile.close_wp
  · intro hf
    refine ⟨by simp [lnOwn, hf], ?_⟩
    have : (lnOwn f w).set f.fd none = lnOwn { f with closed := true } w := by
      funext x; by_cases hx : x = f.fd
      · simp [Own.set, lnOwn, hx, hne]
      · simp [Own.set, lnOwn, hx]
    rw [this]
    simpa [wp, wp_bind] using second
  · intro hf
    have e : f = { f with closed := true } := by cases f; simp_all
    rw [e]
    simpa [wp, wp_bind] using second

structure LnInv (l : Listener) (o : Own) (ran : Bool) : Prop where
  shape : ∃ f w, l.file = some f ∧ l.ln = some w ∧ f.fd ≠ w.fd ∧ o = lnOwn f w ∧
    (ran = true → f.closed = true ∧ w.closed = true)

theorem lnEnd_wp (A) (l : Listener) (o : Own) (ran : Bool) (inv : LnInv l o ran) :
    wp A (lnEnd Listener.close ran l) (fun _ o' => o' = Own.empty) o := by
  obtain ⟨f, w, hf, hw, hne, ho, hr⟩ := inv.shape
  unfold lnEnd
  cases ran
  · simp only [Bool.false_eq_true, if_false, bind_def, wp_bind]
    have hl : l = { fd := l.fd, file := some f, ln := some w } := by cases l; simp_all
    have cl : wp A (Listener.close l) (fun _ o' => o' = Own.empty) o := by
      rw [hl, ho]
      apply Listener.close_wp A _ f w hne
      rfl
    apply wp_ask; intro b _; cases b
    · simpa [wp, wp_bind] using cl
    · simpa [wp, wp_bind, visit, M.bind] using cl
  · simp only [if_true, pure_def, wp]
    rw [ho]; exact lnOwn_closed f w (hr rfl).1 (hr rfl).2

theorem lnCloseLoop_wp (A) (fuel : Nat) : ∀ (l : Listener) (o : Own) (ran : Bool), LnInv l o ran →
    wp A (lnCloseLoop Listener.close fuel ran l) (fun _ o' => o' = Own.empty) o := by
  induction fuel with
  | zero => intro l o ran inv; simpa [lnCloseLoop] using lnEnd_wp A l o ran inv
  | succ n ih =>
    intro l o ran inv
    simp only [lnCloseLoop, bind_def, wp_bind]
    apply wp_ask; intro b _; cases b
    · simpa using lnEnd_wp A l o ran inv
    · simp only [Bool.not_true, Bool.false_eq_true, if_false, wp_bind]
      obtain ⟨f, w, hf, hw, hne, ho, hr⟩ := inv.shape
      have hl : l = { fd := l.fd, file := some f, ln := some w } := by cases l; simp_all
      have cl : wp A (Listener.close l)
          (fun l' o' => wp A (lnCloseLoop Listener.close n true l') (fun _ o' => o' = Own.empty) o') o := by
        rw [hl, ho]
        apply Listener.close_wp A _ f w hne
        apply ih
        exact ⟨⟨_, _, rfl, rfl, hne, (lnOwn_closed _ _ rfl rfl).symm, fun _ => ⟨rfl, rfl⟩⟩⟩
      apply wp_ask; intro b _; cases b
      · simpa [wp, wp_bind] using cl
      · simpa [wp, wp_bind, visit, M.bind] using cl

/-- `P` is the claim made about what is owned at the end.  On the branch where the code leaves a descriptor to
the garbage collector (`SetNonblock` failing after the duplicate was made) either the assumptions exclude the
branch or `P` must hold of anything (safety-only use).  `File()` failing leaves nothing (fix of F1). -/
def LnLeak (A : Br → Option Bool) (P : Own → Prop) : Prop :=
  A .ln_setNonblock_ok = some true ∨ ∀ o, P o

theorem lifeCreateListener_wp (A) (fuel : Nat) (P : Own → Prop) (hP : P Own.empty) (hl : LnLeak A P) :
    wp A (lifeCreateListener fuel) (fun _ o => P o) Own.empty := by
  unfold lifeCreateListener lifeCreateListenerWith
  simp only [bind_def, wp_bind]
  apply wp_ask; intro b _; cases b
  case true => simpa [wp] using hP
  case false =>
    simp only [Bool.false_eq_true, if_false, wp_bind]
    apply wp_ask; intro b _; cases b
    · simpa [wp] using hP
    · simp only [Bool.not_true, Bool.false_eq_true, if_false, wp_bind, open_, wp]
      intro lfd h2 _
      unfold convertTail
      simp only [bind_def, wp_bind]
      apply wp_ask; intro b hb; cases b
      · -- File() failed: ln.Close() closes what net.Listen opened, nothing is left
        simp only [Bool.not_false, if_true, pure_def, wp, wp_bind]
        apply OsFile.close_wp
        · intro _
          refine ⟨by simp, ?_⟩
          simp only [wp]
          rw [Own.set_cancel Own.empty lfd (some 0) rfl]; exact hP
        · intro h; simp at h
      · simp only [Bool.not_true, Bool.false_eq_true, if_false, wp_bind, open_, wp]
        intro d hd2 hd
        have hne : d ≠ lfd := by intro e; subst e; simp at hd
        apply wp_ask; intro b hb; cases b
        · -- SetNonblock failed: ln.Close(), the duplicate stays
          rcases hl with h1 | h
          · rw [h1] at hb; simp at hb
          · simp only [pure_def, wp, Bool.not_false, if_true, wp_bind]
            apply OsFile.close_wp
            · intro _
              refine ⟨by simp [Own.set, Ne.symm hne], ?_⟩
              simpa [wp] using h _
            · intro h'; simp at h'
        · simp only [pure_def, wp, Bool.not_true, Bool.false_eq_true, if_false]
          apply wp_mono A _ (fun _ o' => o' = Own.empty) _ _ (fun _ o' h => h ▸ hP)
          apply lnCloseLoop_wp
          refine ⟨⟨{ fd := d, tag := 1 }, { fd := lfd, tag := 0 }, rfl, rfl, hne, ?_, fun h => by simp at h⟩⟩
          funext x
          by_cases hx : x = d
          · simp [Own.set, lnOwn, hx]
          · by_cases hx' : x = lfd <;> simp [Own.set, lnOwn, hx, hx']

theorem lifeConvertListener_wp (A) (lfd fuel : Nat) (P : Own → Prop) (hP : P Own.empty) (hl : LnLeak A P) :
    wp A (lifeConvertListener lfd fuel) (fun _ o => P o) Own.empty := by
  unfold lifeConvertListener
  simp only [bind_def, wp_bind]
  apply wp_ask; intro b _; cases b
  · simp only [Bool.false_eq_true, if_false, wp_bind]
    apply wp_ask; intro b _; cases b
    · simpa [wp] using hP
    · simp only [Bool.not_true, Bool.false_eq_true, if_false, wp_bind]
      unfold convertTail
      simp only [bind_def, wp_bind]
      apply wp_ask; intro b hb; cases b
      · simpa [wp] using hP        -- File() failed: the caller keeps its listener, nothing was opened
      · simp only [Bool.not_true, Bool.false_eq_true, if_false, wp_bind, open_, wp]
        intro d hd2 hd
        apply wp_ask; intro b hb; cases b
        · rcases hl with h1 | h
          · rw [h1] at hb; simp at hb
          · simpa [wp] using h _
        · simp only [pure_def, wp, Bool.not_true, Bool.false_eq_true, if_false, adopt_, M.bind]
          intro l2 hl0
          have hne : d ≠ lfd := by intro e; subst e; simp at hl0
          apply wp_mono A _ (fun _ o' => o' = Own.empty) _ _ (fun _ o' h => h ▸ hP)
          apply lnCloseLoop_wp
          refine ⟨⟨{ fd := d, tag := 1 }, { fd := lfd, tag := 0 }, rfl, rfl, hne, ?_, fun h => by simp at h⟩⟩
          funext x
          by_cases hx : x = d
          · simp [Own.set, lnOwn, hx, hne]
          · by_cases hx' : x = lfd <;> simp [Own.set, lnOwn, hx, hx', Ne.symm hne]
  · simpa [wp] using hP

/-! ### poller -/

def PollLeak (A : Br → Option Bool) (P : Own → Prop) : Prop := A .epollWait_ok = some true ∨ ∀ o, P o

def pollOwn (p : Poll) : Own := (Own.empty.set p.fd (some 0)).set p.wfd (some 1)

theorem pollExit_wp (A) (p : Poll) (hne : p.fd ≠ p.wfd) (P : Own → Prop) (hP : P Own.empty) (hl : PollLeak A P) :
    wp A (pollExit p) (fun _ o => P o) (pollOwn p) := by
  unfold pollExit
  simp only [bind_def, wp_bind]
  apply wp_ask; intro b hb; cases b
  · rcases hl with h1 | h
    · rw [h1] at hb; simp at hb
    · simpa [wp] using h _
  · have e : ((pollOwn p).set p.wfd none).set p.fd none = Own.empty := by
      funext x; by_cases hx : x = p.fd <;> by_cases hx' : x = p.wfd <;> simp [Own.set, pollOwn, hx, hx']
    have h1 : pollOwn p p.wfd = some 1 := by simp [pollOwn]
    have h2 : ((pollOwn p).set p.wfd none) p.fd = some 0 := by simp [pollOwn, Own.set, hne]
    simp [wp, M.close, M.bind, h1, h2, e]; exact hP

theorem pollLoop_wp (A) (p : Poll) (hne : p.fd ≠ p.wfd) (P : Own → Prop) (hP : P Own.empty) (hl : PollLeak A P)
    (fuel : Nat) : wp A (pollLoop p fuel) (fun _ o => P o) (pollOwn p) := by
  induction fuel with
  | zero => simpa [pollLoop] using pollExit_wp A p hne P hP hl
  | succ n ih =>
    simp only [pollLoop, bind_def, wp_bind]
    apply wp_ask; intro b hb; cases b
    · rcases hl with h1 | h
      · rw [h1] at hb; simp at hb
      · simpa [wp] using h _
    · simp only [Bool.not_true, Bool.false_eq_true, if_false, wp_bind]
      apply wp_ask; intro b _; cases b
      · simpa using pollExit_wp A p hne P hP hl
      · simpa using ih

theorem lifePoller_wp (A) (fuel : Nat) (P : Own → Prop) (hP : P Own.empty) (hl : PollLeak A P) :
    wp A (lifePoller fuel) (fun _ o => P o) Own.empty := by
  unfold lifePoller openDefaultPoll
  simp only [bind_def, wp_bind]
  apply wp_ask; intro b _; cases b
  · simpa [wp] using hP
  · simp only [Bool.not_true, Bool.false_eq_true, if_false, wp_bind, open_, wp]
    intro p hp2 _
    apply wp_ask; intro b _; cases b
    · simp [wp, M.close, M.bind, Own.set_cancel Own.empty p (some 0) rfl]; exact hP
    · simp only [Bool.not_true, Bool.false_eq_true, if_false, wp_bind, open_, wp]
      intro w hw2 hw
      have hne : p ≠ w := by intro e; subst e; simp at hw
      apply wp_ask; intro b _; cases b
      · have e : ((Own.empty.set p (some 0)).set w (some 1)).set w none = Own.empty.set p (some 0) := by
          funext x; by_cases hx : x = w <;> simp [Own.set, hx, Ne.symm hne]
        simp [wp, M.close, M.bind, e, Own.set_cancel Own.empty p (some 0) rfl]; exact hP
      · simpa [wp, pollOwn] using pollLoop_wp A { fd := p, wfd := w } hne P hP hl fuel

/-! ### every lifecycle of the family -/

/-- No close / hand-over of a number that is not owned, on any path, without any assumption. -/
theorem kind_safe (A) (k : Kind) : wp A k.prog (fun _ _ => True) Own.empty := by
  cases k with
  | dialTCP f => exact wp_mono A _ _ _ _ (fun _ _ _ => trivial) (lifeDialTCP_safe A f)
  | dialUnix f => exact wp_mono A _ _ _ _ (fun _ _ _ => trivial) (lifeDialUnix_safe A f)
  | accepted f => exact wp_mono A _ _ _ _ (fun _ _ _ => trivial) (lifeAccepted_safe A f)
  | acceptConn f => exact wp_mono A _ _ _ _ (fun _ _ _ => trivial) (lifeAcceptConn_safe A f)
  | fdConn fd f => exact wp_mono A _ _ _ _ (fun _ _ _ => trivial) (lifeFDConn_safe A fd f)
  | createListener f => exact lifeCreateListener_wp A f (fun _ => True) trivial (Or.inr fun _ => trivial)
  | convertListener l f => exact lifeConvertListener_wp A l f (fun _ => True) trivial (Or.inr fun _ => trivial)
  | poller f => exact lifePoller_wp A f (fun _ => True) trivial (Or.inr fun _ => trivial)

/-- … and under `noLeakAssumptions` every path ends owning nothing. -/
theorem kind_complete (k : Kind) : wp noLeakAssumptions k.prog (fun _ o => o = Own.empty) Own.empty := by
  cases k with
  | dialTCP f => exact lifeDialTCP_safe _ f
  | dialUnix f => exact lifeDialUnix_safe _ f
  | accepted f => exact lifeAccepted_safe _ f
  | acceptConn f => exact lifeAcceptConn_safe _ f
  | fdConn fd f => exact lifeFDConn_safe _ fd f
  | createListener f => exact lifeCreateListener_wp _ f (fun o => o = Own.empty) rfl (Or.inl rfl)
  | convertListener l f => exact lifeConvertListener_wp _ l f (fun o => o = Own.empty) rfl (Or.inl rfl)
  | poller f => exact lifePoller_wp _ f (fun o => o = Own.empty) rfl (Or.inl rfl)

end Netpoll.Fd
