import Lean
/-! Audit: lists every theorem declared in the given modules with the axioms it depends on, as JSON.
Run with `lake env lean --run Audit.lean Netpoll.Props.C01 ...`. -/
open Lean

def jsonStr (s : String) : String := "\"" ++ (s.replace "\\" "\\\\").replace "\"" "\\\"" ++ "\""

instance : MonadEnv (StateM Environment) := ⟨get, modify⟩

unsafe def main (args : List String) : IO UInt32 := do
  initSearchPath (← findSysroot)
  enableInitializersExecution
  let mods := args.map String.toName
  let env ← importModules (mods.toArray.map fun m => { module := m }) {} (trustLevel := 1024) (loadExts := true)
  let mut out : Array String := #[]
  for m in mods do
    let some idx := env.getModuleIdx? m | continue
    let names := env.header.moduleData[idx.toNat]!.constNames
    for n in names do
      if n.isInternal then continue
      match env.find? n with
      | some (.thmInfo _) =>
        let (axioms, _) := (collectAxioms n : StateM Environment (Array Name)).run env
        let axs := axioms.toList.map (fun a => jsonStr a.toString)
        out := out.push ("{\"module\":" ++ jsonStr m.toString ++ ",\"theorem\":" ++ jsonStr n.toString ++
          ",\"axioms\":[" ++ ",".intercalate axs ++ "]}")
      | _ => pure ()
  IO.println ("[" ++ ",\n".intercalate out.toList ++ "]")
  return 0
