import Lean
/-! Audit: lists every theorem declared in the given modules with the axioms it depends on, as JSON.
Run with `lake env lean --run Audit.lean Netpoll.Props.C01 ...`. -/
open Lean

def jsonStr (s : String) : String := "\"" ++ (s.replace "\\" "\\\\").replace "\"" "\\\"" ++ "\""

/-- axioms a constant depends on, memoised across all the theorems of one run (a fresh
`collectAxioms` per theorem re-walks the shared library proofs every time) -/
partial def axiomsOf (env : Environment) (n : Name) : StateM (Std.HashMap Name NameSet) NameSet := do
  if let some r := (← get).get? n then return r
  -- mark first: constants are acyclic, this only guards against re-entry
  modify (·.insert n {})
  let r ← match env.find? n with
    | none => pure {}
    | some ci => do
      let mut acc : NameSet := {}
      if let .axiomInfo _ := ci then acc := acc.insert n
      let deps := match ci.value? (allowOpaque := true) with
        | some v => ci.type.getUsedConstantsAsSet.merge v.getUsedConstantsAsSet
        | none => match ci with
          | .inductInfo iv => iv.ctors.foldl (fun s c => s.insert c) ci.type.getUsedConstantsAsSet
          | _ => ci.type.getUsedConstantsAsSet
      for d in deps.toList do
        acc := acc.merge (← axiomsOf env d)
      pure acc
  modify (·.insert n r)
  return r

unsafe def main (args : List String) : IO UInt32 := do
  initSearchPath (← findSysroot)
  enableInitializersExecution
  let mods := args.map String.toName
  let env ← importModules (mods.toArray.map fun m => { module := m }) {} (trustLevel := 1024) (loadExts := true)
  let mut out : Array String := #[]
  let mut memo : Std.HashMap Name NameSet := {}
  for m in mods do
    let some idx := env.getModuleIdx? m | continue
    let names := env.header.moduleData[idx.toNat]!.constNames
    for n in names do
      if n.isInternal then continue
      match env.find? n with
      | some (.thmInfo _) =>
        let (axioms, memo') := (axiomsOf env n).run memo
        memo := memo'
        let axs := axioms.toList.map (fun a => jsonStr a.toString)
        out := out.push ("{\"module\":" ++ jsonStr m.toString ++ ",\"theorem\":" ++ jsonStr n.toString ++
          ",\"axioms\":[" ++ ",".intercalate axs ++ "]}")
      | _ => pure ()
  IO.println ("[" ++ ",\n".intercalate out.toList ++ "]")
  return 0
